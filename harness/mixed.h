/* chains whose links are encoder-made or model-made (spec.c) */
#ifndef VH_MIXED_H
#define VH_MIXED_H
#include "common.h"
#include "spec.h"
/* builds the chain described by d; links whose bit is set in modelmask are replaced by model-made streams (random legal set-up,
   2..maxpk packets, optional end trim) muxed with the same serial number and paging policy; for those d->cfg[i].nsamples is set to -1
   (length unknown to the caller). Appends a note per model link to desc. Returns 0, or the encoder's refusal code. */
int build_chain_mixed(rng_t *r,chaindesc_t *d,unsigned modelmask,int maxpk,int maxch,buf_t *out,size_t *link_off,char *desc,size_t dn);
unsigned pick_modelmask(rng_t *r,int nlinks);
#endif
