/* Encoder-side monitors: C04 (sample-count conservation), C06 (alignment/finite/quality envelope),
   C14 (hard bitrate limits, real encodes + direct drive of the rate manager), C15 (set-up argument space),
   C16 (comment round trip and queries). */
#define _GNU_SOURCE
#include "common.h"
#include <math.h>
#include <float.h>
#include <errno.h>
#include "codec_internal.h"   /* C14 direct drive only: vorbis_block_internal.packetblob[] */

/* ------------------------------------------------------------------ shared: packet-level decode */
typedef struct { int ch; long n, cap; float **pcm; long rate; long bs0,bs1; int hdr_err; long syn_err, blockin_err; long overrun_pk; long bits_slack_max; long bits_short_pk; } pdec_t;
static void pdec_free(pdec_t *o){ if(o->pcm){ for(int c=0;c<o->ch;c++) free(o->pcm[c]); free(o->pcm);} memset(o,0,sizeof *o); }
/* keep: store samples; returns 0 if headers were accepted */
static int pdec_run(const pktlist_t *pk,pdec_t *o,int keep){
  vorbis_info vi; vorbis_comment vc; vorbis_dsp_state vd; vorbis_block vb; ogg_packet op;
  memset(o,0,sizeof *o);
  vorbis_info_init(&vi); vorbis_comment_init(&vc);
  for(int i=0;i<3;i++){
    if(i>=pk->n){ o->hdr_err=-999; break; }
    pkt_to_ogg(&pk->v[i],&op);
    int r=vorbis_synthesis_headerin(&vi,&vc,&op);
    if(r<0){ o->hdr_err=r?r:-1; break; }
  }
  if(o->hdr_err){ vorbis_comment_clear(&vc); vorbis_info_clear(&vi); return -1; }
  o->ch=vi.channels; o->rate=vi.rate; o->bs0=vorbis_info_blocksize(&vi,0); o->bs1=vorbis_info_blocksize(&vi,1);
  if(vorbis_synthesis_init(&vd,&vi)){ o->hdr_err=-998; vorbis_comment_clear(&vc); vorbis_info_clear(&vi); return -1; }
  vorbis_block_init(&vd,&vb);
  if(keep&1){ o->pcm=calloc(o->ch,sizeof(float*)); }
  for(int i=3;i<pk->n;i++){
    pkt_to_ogg(&pk->v[i],&op); if((keep&4) && i!=pk->n-1) op.granulepos=-1;   /* as if all audio sat on one page: only the final packet carries a granule position */
    int r=vorbis_synthesis(&vb,&op);
    if(r==0){
      long used=oggpack_bits(&vb.opb), have=8*op.bytes;
      if(used>have) o->overrun_pk++;
      else { long slack=have-used; if(slack>o->bits_slack_max)o->bits_slack_max=slack; if(slack>=8)o->bits_short_pk++; }
      if(vorbis_synthesis_blockin(&vd,&vb)) o->blockin_err++;
    } else o->syn_err++;
    float **pcm; int n;
    while((n=vorbis_synthesis_pcmout(&vd,&pcm))>0){
      if((keep&2) && n>1 && ((i+o->n)&1)) n=(n+1)/2;   /* take fewer samples than offered: the next pcmout must continue where this read stopped */
      if(keep&1){
        if(o->n+n>o->cap){ long c=o->cap?o->cap*2:16384; while(c<o->n+n)c*=2; for(int k=0;k<o->ch;k++) o->pcm[k]=realloc(o->pcm[k],sizeof(float)*c); o->cap=c; }
        for(int k=0;k<o->ch;k++) memcpy(o->pcm[k]+o->n,pcm[k],sizeof(float)*n);
      }
      o->n+=n; vorbis_synthesis_read(&vd,n);
    }
  }
  vorbis_block_clear(&vb); vorbis_dsp_clear(&vd); vorbis_comment_clear(&vc); vorbis_info_clear(&vi);
  return 0;
}
static int rate_band(long rate){ return rate<9000?0: rate<15000?1: rate<19000?2: rate<26000?3: rate<40000?4: rate<50000?5:6; }

/* ------------------------------------------------------------------ C04 */
static const long c04_rates[]={8000,8999,9000,11025,14999,15000,16000,18999,19000,22050,25999,26000,32000,39999,40000,44100,
                               48000,49999,50000,64000,96000,192000,200000,44100,44100,48000};
static const long c04_nfix[]={0,1,2,3,4,7,8,9,12,15,16,17,31,32,33,63,64,65,127,128,129,255,256,257,511,512,513,1023,1024,1025,2047,2048,2049,4095,4096,4097,
                              8191,8192,8193,16383,16384,16385};
static long vf_count(const unsigned char *d,size_t n,int seekmode,long *total,long *tell0,int *err,int readmode){
  OggVorbis_File vf; memsrc_t ms; memsrc_init(&ms,d,n,seekmode);
  int r=ov_open_callbacks(&ms,&vf,NULL,0,memsrc_cb(&ms)); *err=0;
  if(r){ *err=r; return -1; }
  if(total) *total=(long)ov_pcm_total(&vf,-1);
  if(tell0) *tell0=(long)ov_pcm_tell(&vf);
  long cnt=0; int bs;
  if(readmode==0){ float **pcm; long g; while((g=ov_read_float(&vf,&pcm,4096,&bs))>0) cnt+=g; if(g<0)*err=(int)g; }
  else { static char buf[8192]; long g; int ch=ov_info(&vf,-1)->channels; while((g=ov_read(&vf,buf,sizeof buf,0,2,1,&bs))>0) cnt+=g/(2*ch); if(g<0)*err=(int)g; }
  ov_clear(&vf);
  return cnt;
}
typedef struct { long bits; int W; } rpk_t;
static double window_check(const rpk_t *p,int n,long bs0,long bs1,double rate,double lim_rate,double reservoir,int is_max,int *wi,int *wj,double *wsum);
static int blockflags_from_headers(const pktlist_t *pk,rpk_t *out,int *n,long *bs0,long *bs1);
static void case_c04(const drvargs_t *a,long id){
  rng_t r; rng_seed(&r,a->seed,4,(uint64_t)id);
  enccfg_t c; enccfg_default(&c); char desc[300];
  res_begin(id);
  /* stratified configuration */
  int nf=(int)(sizeof c04_nfix/sizeof *c04_nfix);
  long N; int ncls;
  if(id%3!=2){ N=c04_nfix[(id/3*2+id%3)%nf]; ncls= N<4?0:1; }
  else { N=rng_range(&r,4,a->thorough?250000:60000); ncls=2; if(rng_chance(&r,0.3)){ N=rng_range(&r,4,5000); } }
  static const int chs[]={1,2,1,2,3,6,8,2,1,4,5,7};
  c.channels=chs[rng_below(&r,12)];
  if(id%40==7){ static const int big[]={16,64,255}; c.channels= rng_chance(&r,0.5)?big[rng_below(&r,3)]:(int)rng_range(&r,9,255); long cap=a->thorough?6000:3000; if(N>cap)N=N%cap; }   /* 9..255 channels in both tiers */
  c.rate=c04_rates[rng_below(&r,sizeof c04_rates/sizeof *c04_rates)];
  static const float qs[]={-0.1f,0.0f,0.3f,0.5f,0.7f,1.0f};
  c.quality=qs[rng_below(&r,6)]; if(rng_chance(&r,0.3)) c.quality=(float)(-0.1+1.1*rng_unit(&r));
  int mk=(int)rng_below(&r,10);
  if(mk>=7){ /* managed */
    c.mode= rng_chance(&r,0.5)?ENC_MANAGED:ENC_INIT_ABR;
    long nom=(long)(c.rate*c.channels*(0.8+1.6*rng_unit(&r)));
    int kind=(int)rng_below(&r,4);
    c.br_nom=nom; c.br_max=-1; c.br_min=-1;
    if(kind==1) c.br_max=(long)(nom*1.25); else if(kind==2) c.br_min=(long)(nom*0.75); else if(kind==3){ c.br_max=nom; c.br_min=nom; }
  } else if(mk==6) c.mode=ENC_INIT_VBR;
  int biting=0;
  if(id%16==13 && ncls==2){ /* a hard maximum that really bites: low limit, small reservoir, full-band noise - the manager then has to truncate packets, and truncated packets are valid audio */
    biting=1; c.mode=ENC_MANAGED; if(c.channels>2) c.channels=2; if(c.rate<32000) c.rate=44100;
    c.br_nom=(long)(c.rate*c.channels*(0.45+0.35*rng_unit(&r))); c.br_max=-1; c.br_min=-1;
    c.have_rm2=1; c.rm2_reservoir_bits_secs=0.05+0.2*rng_unit(&r); c.rm2_bias=rng_unit(&r)*0.5; c.rm2_damping=0;
    c.rm2_avg_off=1; c.rm2_max_kbps=(long)(c.br_nom*(0.7+0.4*rng_unit(&r))/1000);   /* quality stays at the nominal set-up, the limit sits at or below it */
    if(N<20000) N=20000+(long)rng_below(&r,40000); }
  static const int sigs[]={SIG_SILENCE,SIG_NOISE,SIG_ENDCLICK,SIG_DC,SIG_MULTI,SIG_CLICKS,SIG_BURSTS,SIG_IMPULSE,SIG_OVER,SIG_DENORM,SIG_ALT,SIG_SWEEP};
  c.sig=sigs[rng_below(&r,12)]; c.sigseed=rng_next(&r); c.nsamples=N;
  if(biting) c.sig= rng_chance(&r,0.7)?SIG_NOISE:SIG_OVER;
  c.chunk=(int)rng_below(&r,CHUNK_NKINDS); if(c.chunk==CHUNK_1 && N>20000) c.chunk=CHUNK_RANDOM;
  c.lazy=(int)rng_below(&r,2);
  if(c.channels>8 && N>(a->thorough?6000:3000)){ N%=(a->thorough?6000:3000); c.nsamples=N; }
  if(id%16==5) c.refused_wrote=1+(int)rng_below(&r,3);   /* an over-long vorbis_analysis_wrote in mid-stream is refused and must not count */
  enccfg_json(&c,desc,sizeof desc);
  encres_t er; int ret=enc_run(&c,&er);
  if(!ret && (er.wrote_errors || (er.refused_wrote_ret && er.refused_wrote_ret!=OV_EINVAL))) res_viol("C04","submission-refused","%ld correct vorbis_analysis_wrote calls refused; the over-long report returned %d: %s",er.wrote_errors,er.refused_wrote_ret,desc);
  if(!ret && er.refused_wrote_ret) res_count("encodes_with_a_refused_overlong_report",1);
  if(ret){
    if(ret!=OV_EINVAL&&ret!=OV_EIMPL&&ret!=OV_EFAULT) res_viol("C15","setup-return-domain","%d: %s",ret,desc);
    res_count("setups_refused",1); res_sample("refused(%d): %s",ret,desc); encres_free(&er); res_end(); return;
  }
  res_count("encodes",1);
  if(er.nsubmitted!=N) res_viol("C04","harness-submitted","%ld vs %ld",er.nsubmitted,N);
  /* ordering / flags over the packet log */
  int na=er.pk.n-3; res_eval(1);
  if(na<1) res_viol("C04","no-audio-packets","%d packets: %s",er.pk.n,desc);
  else {
    ogg_int64_t prev=0; int bad=0;
    for(int i=3;i<er.pk.n;i++){
      pkt_t *p=&er.pk.v[i];
      if(p->granulepos<prev && !bad){ res_viol("C04","granule-decreases","packet %d: %lld after %lld: %s",i-3,(long long)p->granulepos,(long long)prev,desc); bad=1; }
      if(p->granulepos>N && !bad){ res_viol("C04","granule-beyond-N","packet %d: %lld > N=%ld: %s",i-3,(long long)p->granulepos,N,desc); bad=1; }
      prev=p->granulepos;
      if(p->e_o_s && i!=er.pk.n-1){ res_viol("C04","eos-before-last","packet %d of %d: %s",i-3,na,desc); bad=1; }
      if(p->b_o_s){ res_viol("C04","bos-on-audio","packet %d",i-3); bad=1; }
    }
    pkt_t *L=&er.pk.v[er.pk.n-1];
    if(!L->e_o_s) res_viol("C04","last-without-eos","%s",desc);
    if(L->granulepos!=N) res_viol("C04","last-granule-not-N","last granule %lld, N=%ld: %s",(long long)L->granulepos,N,desc);
  }
  if(biting && er.managed && er.rm_max_kbps_x1000>0){ /* did the limit bite?  (window fill of the hard-limit reservoir, as in C14) */
    static rpk_t rp[4096]; int rn=0; long b0,b1; int wi,wj; double ws;
    if(na<=4096 && blockflags_from_headers(&er.pk,rp,&rn,&b0,&b1)==0 && er.rm_reservoir_bits>0){
      window_check(rp,rn,b0,b1,(double)c.rate,(double)er.rm_max_kbps_x1000,er.rm_reservoir_bits,1,&wi,&wj,&ws);
      res_metric("c04_hard_max_window_fill_fraction",ws/er.rm_reservoir_bits);
      if(ws>=0.9*(1.0-er.rm_bias)*er.rm_reservoir_bits) res_count("encodes_with_saturated_hard_maximum",1); } }   /* the reservoir never drains below bias x size when only a maximum is set */
  /* conservation through the packet API */
  pdec_t pd; res_eval(1);
  if(pdec_run(&er.pk,&pd,0)) res_viol("C05","header-rejected","headerin %d: %s",pd.hdr_err,desc);
  else {
    if(pd.syn_err||pd.blockin_err) res_viol("C05","audio-packet-rejected","%ld synthesis errors, %ld blockin errors: %s",pd.syn_err,pd.blockin_err,desc);
    if(pd.n!=N) res_viol("C04","packet-decode-count","decoded %ld samples, submitted %ld: %s",pd.n,N,desc);
    if(pd.ch!=c.channels||pd.rate!=c.rate) res_viol("C15","info-mismatch","%d/%ld vs %d/%ld",pd.ch,pd.rate,c.channels,c.rate);
  }
  pdec_free(&pd);
  /* conservation through vorbisfile */
  {
    buf_t phys; buf_init(&phys);
    int pol=(int)rng_below(&r,PAGE_NKINDS); int fill=(int)rng_range(&r,1,30000);
    mux_stream(&er.pk,(int)rng_next(&r),pol,fill,rng_next(&r),&phys);
    vh_dump("stream.ogg",phys.p,phys.n);
    long total=-1,tell0=-1; int err; res_eval(1);
    long got=vf_count(phys.p,phys.n,1,&total,&tell0,&err,(int)rng_below(&r,2));
    if(got<0) res_viol("C04","vorbisfile-open-failed","%d: %s",err,desc);
    else {
      if(err) res_viol("C04","vorbisfile-read-error","%d: %s",err,desc);
      if(total!=N) res_viol("C04","pcm-total-not-N","ov_pcm_total %ld, N=%ld: %s",total,N,desc);
      if(tell0!=0) res_viol("C04","tell-after-open-not-0","%ld: %s",tell0,desc);
      if(got!=N) res_viol("C04","vorbisfile-count","read %ld samples, N=%ld: %s",got,N,desc);
    }
    res_eval(1);
    got=vf_count(phys.p,phys.n,0,NULL,&tell0,&err,0);
    if(got<0) res_viol("C04","stream-open-failed","%d: %s",err,desc);
    else { if(err) res_viol("C04","stream-read-error","%d: %s",err,desc); if(got!=N) res_viol("C04","stream-count","streamed %ld samples, N=%ld: %s",got,N,desc); }
    buf_free(&phys);
  }
  if(!res_nviol()){
    res_bucket("N%s|ch%s|band%d|%s|chunk%d|lazy%d", ncls==0?"<4":ncls==1?"blk":(N<5000?"small":"big"),
      c.channels==1?"1":c.channels==2?"2":c.channels<=8?"3-8":"big", rate_band(c.rate),
      c.mode==ENC_VBR||c.mode==ENC_INIT_VBR?"vbr":(c.br_max>0&&c.br_min>0?"cbr":c.br_max>0?"max":c.br_min>0?"min":"abr"), c.chunk,c.lazy);
    res_count("samples_conserved",N); res_count("packets_checked",na);
  }
  res_sample("%s -> %d audio packets, bs %ld/%ld",desc,na,er.bs0,er.bs1);
  encres_free(&er); res_end();
}

/* ------------------------------------------------------------------ C06 */
#define C06_MAXENV 2000
static struct { char key[48]; double v; } env06[C06_MAXENV]; static int nenv06=-1;
static void env06_load(const char *path){
  nenv06=0; FILE *f=path?fopen(path,"r"):NULL; if(!f) return;
  char k[64]; double v;
  while(nenv06<C06_MAXENV && fscanf(f,"%47s %lf",k,&v)==2){ snprintf(env06[nenv06].key,48,"%s",k); env06[nenv06].v=v; nenv06++; }
  fclose(f);
}
static int env06_get(const char *k,double *v){ for(int i=0;i<nenv06;i++) if(!strcmp(env06[i].key,k)){ *v=env06[i].v; return 1; } return 0; }
static double dotlag(const float *x,const float *y,long n,long lag){ /* sum x[i]*y[i+lag] */
  long i0= lag<0?-lag:0, i1= lag>0?n-lag:n; double s=0;
  for(long i=i0;i<i1;i++) s+=(double)x[i]*y[i+lag];
  return s;
}
static void case_c06(const drvargs_t *a,long id,const char *envpath){
  rng_t r; rng_seed(&r,a->seed,6,(uint64_t)id);
  if(nenv06<0) env06_load(envpath);
  res_begin(id);
  enccfg_t c; enccfg_default(&c);
  static const long rates[]={8000,11025,16000,22050,32000,44100,48000,96000,44100,48000};
  static const int chq[]={1,2,2,6,1,2}; static const int cht[]={1,2,3,4,5,6,8,2,1,2};
  static const float qs[]={-0.1f,0.1f,0.3f,0.5f,0.7f,1.0f};
  static const int sigs[]={SIG_MULTI,SIG_GATED,SIG_SWEEP,SIG_NOISE,SIG_CLICKS,SIG_BURSTS,SIG_WIDE,SIG_MULTI,SIG_WIDE,SIG_GATED,SIG_ONSET};
  c.rate=rates[id%10]; c.channels=a->thorough?cht[(id/10)%10]:chq[(id/10)%6];
  c.sig=sigs[(id/7)%11]; c.sigseed=rng_next(&r);
  if(c.sig==SIG_ONSET){ /* put the burst into a random channel that exists (bits 8..13 of the seed select it) */ int bch=(int)rng_below(&r,(uint32_t)c.channels); c.sigseed=(c.sigseed&~(uint64_t)0x3f00)|((uint64_t)bch<<8); }
  long N=(long)(c.rate*(0.9+0.5*rng_unit(&r))); if(N>64000)N=64000; if(c.channels>2 && N>40000)N=40000;
  c.nsamples=N; c.chunk=CHUNK_RANDOM;
  int managed = (id%6==5);
  if(id%12==11){ /* dedicated stratum: bitrate-managed coupled stereo with content up to 0.4*rate (managed-only code paths in the stereo set-up) */
    managed=1; c.channels=2; c.rate=(id%24==11)?44100:48000; c.sig= (id%36==11)?SIG_MULTI:SIG_WIDE; N=(long)(c.rate*(0.9+0.5*rng_unit(&r))); if(N>64000)N=64000; c.nsamples=N; }
  int nq= managed?1:3; int qi[3]; qi[0]=(int)rng_below(&r,2); qi[1]=2+(int)rng_below(&r,2); qi[2]=4+(int)rng_below(&r,2);
  double snr_prev=-1e9; int qprev=-1;
  /* original */
  float **in=calloc(c.channels,sizeof(float*));
  for(int ch=0;ch<c.channels;ch++){ in[ch]=malloc(sizeof(float)*N); for(long i=0;i<N;i++) in[ch][i]=sig_sample(c.sig,c.sigseed,ch,i,c.rate,N); }
  for(int k=0;k<nq;k++){
    char desc[300], key[64];
    if(managed){ c.mode=ENC_MANAGED; c.br_nom=(long)(c.rate*c.channels*(0.9+1.2*rng_unit(&r))); c.br_max=-1; c.br_min=-1; }
    else { c.mode=ENC_VBR; c.quality=qs[qi[k]]; }
    enccfg_json(&c,desc,sizeof desc);
    c.refused_wrote= (id%5==2)? 2:0;   /* one over-long vorbis_analysis_wrote in mid-stream: refused, and what follows must stay where it belongs */
    encres_t er; int ret=enc_run(&c,&er);
    if(ret){ res_count("setups_refused",1); encres_free(&er); continue; }
    pdec_t pd;
    if(pdec_run(&er.pk,&pd,((id&1)?3:1)|((id%3==1)?4:0))||pd.syn_err){ res_viol("C05","decode-rejected","%s",desc); pdec_free(&pd); encres_free(&er); continue; }
    res_eval(1); res_count("encodes",1);
    if(pd.n!=N){ res_viol("C04","packet-decode-count","decoded %ld, N=%ld: %s",pd.n,N,desc); pdec_free(&pd); encres_free(&er); continue; }
    int ok=1;
    double pin=0,pout=0,esum=0,ssum=0; long nonfinite=0;
    for(int ch=0;ch<c.channels;ch++) for(long i=0;i<N;i++){
      float o=pd.pcm[ch][i], x=in[ch][i];
      if(!isfinite(o)){ nonfinite++; continue; }
      if(fabsf(o)>pout)pout=fabsf(o);
      if(fabsf(x)>pin)pin=fabsf(x);
      esum+=((double)o-x)*((double)o-x); ssum+=(double)x*x;
    }
    if(nonfinite){ res_viol("C06","non-finite-output","%ld non-finite samples: %s",nonfinite,desc); ok=0; }
    double snr= 10*log10((ssum+1e-30)/(esum+1e-30));
    { /* the end of the stream in particular: the last block is the one the end-of-stream trimming touches */
      long tl= N/3<2048? N/3:2048; double te=0,ts=0; for(int ch=0;ch<c.channels;ch++) for(long i=N-tl;i<N;i++){ float o=pd.pcm[ch][i], x=in[ch][i]; if(!isfinite(o)) continue; te+=((double)o-x)*((double)o-x); ts+=(double)x*x; }
      if(tl>256 && ts>1e-4*tl*c.channels){ double tsnr=10*log10((ts+1e-30)/(te+1e-30)); res_metric("tail_snr_minus_overall_snr",tsnr-snr); res_count("stream_tails_judged",1);
        if(snr>=20.0 && tsnr<3.0){ res_viol("C06","tail-not-aligned","the last %ld samples reconstruct at %.1f dB while the whole stream does at %.1f dB%s: %s",tl,tsnr,snr,(id%3==1)?" (granule position on the final packet only)":"",desc); ok=0; } } }
    double pk= pin>0? pout/pin : 0;
    { char pkk[40]; snprintf(pkk,sizeof pkk,"peak_ratio|%s",sig_name(c.sig)); res_metric(pkk,pk); }
    if(pin>0 && pk>6.0){ res_viol("C06","peak-exceeds-6x-input","peak out %.3f in %.3f: %s",pout,pin,desc); ok=0; }
    /* time alignment: argmax of cross-correlation over a lag set must be lag 0 */
    int aligned_checked=0;
    if(!nonfinite && ssum>0) for(int ch=0;ch<c.channels && ch<3;ch++){
      double best=-1e300; long bl=0; double c0=dotlag(in[ch],pd.pcm[ch],N,0);
      for(long lag=-4608;lag<=4608;lag+= (lag>=-64&&lag<64)?1:16){
        if(labs(lag)>=N) continue;
        double v= lag==0?c0:dotlag(in[ch],pd.pcm[ch],N,lag);
        if(v>best){ best=v; bl=lag; }
      }
      double eo=dotlag(pd.pcm[ch],pd.pcm[ch],N,0), ei=dotlag(in[ch],in[ch],N,0);
      double nc= (eo>0&&ei>0)? c0/sqrt(eo*ei):0;
      snprintf(key,sizeof key,"ncorr|%s|q%d",sig_name(c.sig),managed?9:qi[k]); res_metric(key,nc);
      if(eo<=1e-12*ei){ res_count("channels_decoded_silent",1); continue; } /* nothing to align (e.g. all content above the lowpass) */
      double bn= best/sqrt(eo*ei);
      /* a displaced peak is evidence of misalignment only when the peak is sharp: heavily low-passed, channel-coupled noise at the
         lowest qualities correlates weakly (|r| ~ 0.2) and its broad main lobe moves by a sample or two with the coding noise */
      if(bn<0.6){ res_count("channels_too_weakly_correlated_to_judge_lag",1); snprintf(key,sizeof key,"weak_peak_ncorr|%s",sig_name(c.sig)); res_metric(key,bn); continue; }
      aligned_checked++;
      if(bl!=0){ res_viol("C06","misaligned","channel %d: cross-correlation peaks at lag %ld (r=%.3f; %.4g vs %.4g at 0): %s",ch,bl,bn,best,c0,desc); ok=0; }
    }
    /* pre-echo: a burst out of digital silence must not be smeared far ahead of its onset (transient detection -> short blocks) */
    if(c.sig==SIG_ONSET && !nonfinite){
      int bch; long t0; sig_onset_params(c.sigseed,c.channels,N,&bch,&t0);
      if(bch<c.channels && t0>1800 && t0+1000<N){
        double epre=0,eb=0; for(long i=t0-1700;i<t0-700;i++) epre+=(double)pd.pcm[bch][i]*pd.pcm[bch][i]; for(long i=t0;i<t0+1000;i++) eb+=(double)pd.pcm[bch][i]*pd.pcm[bch][i];
        double db= eb>0? 10*log10((epre+1e-30)/eb) : 0;
        res_metric("preecho_db_700_to_1700_before_onset", db<-300?-300:db); res_count("preecho_checks",1);
        if(eb>0 && db>-45.0){ res_viol("C06","pre-echo-far-ahead-of-onset","channel %d: energy 700-1700 samples before the burst is %.1f dB relative to the burst (limit -45 dB): %s",bch,db,desc); ok=0; }
      }
    }
    /* channel identity (signals with per-channel distinct content) */
    if(!nonfinite && c.channels>1 && (c.sig==SIG_MULTI||c.sig==SIG_NOISE||c.sig==SIG_GATED||c.sig==SIG_WIDE) && (managed|| qi[k]>=1)){
      int lim=c.channels<4?c.channels:4;
      for(int ch=0;ch<lim;ch++){
        double bestv=-1e300; int bi=-1;
        double eown=dotlag(in[ch],in[ch],N,0), eout=dotlag(pd.pcm[ch],pd.pcm[ch],N,0);
        if(eown<=0){   /* a digitally silent input channel has nothing to correlate with: it must simply stay (near) silent */
          if(eout>1e-4*(ssum/c.channels+1e-30)){ res_viol("C06","silent-channel-not-silent","input channel %d is digital silence, output energy %.4g (mean input channel energy %.4g): %s",ch,eout,ssum/c.channels,desc); ok=0; }
          res_count("silent_channel_checks",1); continue;
        }
        for(int o=0;o<c.channels;o++){
          double ei=dotlag(in[o],in[o],N,0); if(ei<=0) continue;
          double v=dotlag(in[o],pd.pcm[ch],N,0)/sqrt(ei);
          if(v>bestv){ bestv=v; bi=o; }
        }
        if(bi!=ch){ res_viol("C06","channel-permuted","output channel %d correlates best with input channel %d: %s",ch,bi,desc); ok=0; }
      }
      res_count("channel_identity_checks",lim);
    }
    /* quality envelope on band-limited multi-tones */
    if((c.sig==SIG_MULTI||c.sig==SIG_GATED||c.sig==SIG_WIDE) && !nonfinite && ssum<=0){ res_count("inputs_digitally_silent_throughout_not_judged_for_snr",1); res_metric("output_peak_for_silent_input",pout); }   /* a gated signal can be silent in every segment: no signal, no SNR */
    if((c.sig==SIG_MULTI||c.sig==SIG_GATED||c.sig==SIG_WIDE) && !nonfinite && ssum>0){
      if(managed){ double bps=(double)c.br_nom/((double)c.rate*c.channels); snprintf(key,sizeof key,"snr|%s|b%d|abr%d|c%d",sig_name(c.sig),rate_band(c.rate),bps<1.2?0:bps<1.6?1:2,c.channels>2?3:c.channels); }
      else snprintf(key,sizeof key,"snr|%s|b%d|q%d|c%d",sig_name(c.sig),rate_band(c.rate),qi[k],c.channels>2?3:c.channels);
      res_metric(key,snr);
      double lim;
      if(env06_get(key,&lim)){
        res_count("envelope_checks",1);
        if(snr<lim){ res_viol("C06","snr-below-envelope","%s: SNR %.2f dB < calibrated floor %.2f dB: %s",key,snr,lim,desc); ok=0; }
      } else res_count("envelope_key_missing",1);
      if(!managed){
        if(qprev>=0){ res_metric("snr_gain_per_step",snr-snr_prev); if(snr<snr_prev-6.0){ res_viol("C06","snr-not-monotone","same signal: %.2f dB at q%d, %.2f dB at q%d: %s",snr_prev,qprev,snr,qi[k],desc); ok=0; } res_count("monotone_checks",1); }
        snr_prev=snr; qprev=qi[k];
      }
    }
    if(ok && aligned_checked) res_bucket("%s|ch%d|band%d|%s%d",sig_name(c.sig),c.channels>2?3:c.channels,rate_band(c.rate),managed?"abr":"q",managed?0:qi[k]);
    res_sample("%s: snr %.1f dB peak ratio %.2f",desc,snr,pk);
    pdec_free(&pd); encres_free(&er);
  }
  for(int ch=0;ch<c.channels;ch++) free(in[ch]); free(in);
  res_end();
}

/* ------------------------------------------------------------------ C14 */
/* max-subarray check.  returns worst excess over the reservoir or <=0 */
static double window_check(const rpk_t *p,int n,long bs0,long bs1,double rate,double lim_rate,double reservoir,int is_max,int *wi,int *wj,double *wsum){
  /* per packet term: sign*(bits - lim_rate*dur/rate) - slack, dur = bs[W]/2 (the manager's accounting) */
  double best=-1e300, cur=0; int cs=0; *wi=*wj=0;
  double spl=(double)bs1/bs0;
  for(int i=0;i<n;i++){
    double dur=(p[i].W?bs1:bs0)/2.0;
    double t=(double)p[i].bits-lim_rate*dur/rate; if(!is_max) t=-t;
    t-= 0.5*(p[i].W?spl:1.0);     /* the manager rounds its per-half-short-block target with rint() */
    if(cur<=0){ cur=t; cs=i; } else cur+=t;
    if(cur>best){ best=cur; *wi=cs; *wj=i; }
  }
  *wsum=best;
  return best-(reservoir+(reservoir<8.0?8.0:0.0));   /* the manager books whole bytes, so its invariant is exact - except that a reservoir smaller than one byte cannot be honoured by whole-byte packets */
}
static int blockflags_from_headers(const pktlist_t *pk,rpk_t *out,int *n,long *bs0,long *bs1){
  vorbis_info vi; vorbis_comment vc; ogg_packet op; int ok=1;
  vorbis_info_init(&vi); vorbis_comment_init(&vc);
  for(int i=0;i<3;i++){ pkt_to_ogg(&pk->v[i],&op); if(vorbis_synthesis_headerin(&vi,&vc,&op)<0){ ok=0; break; } }
  if(ok){
    *bs0=vorbis_info_blocksize(&vi,0); *bs1=vorbis_info_blocksize(&vi,1); *n=0;
    for(int i=3;i<pk->n;i++){ pkt_to_ogg(&pk->v[i],&op); long b=vorbis_packet_blocksize(&vi,&op); out[*n].bits=8*op.bytes; out[*n].W=(b==*bs1 && *bs1!=*bs0)?1:0; if(b<0) ok=0; (*n)++; }
  }
  vorbis_comment_clear(&vc); vorbis_info_clear(&vi);
  return ok?0:-1;
}
static void c14_judge(const rpk_t *p,int n,long bs0,long bs1,long rate,long maxr,long minr,double reservoir,const char *desc,const char *tag){
  int wi,wj; double ws;
  if(maxr>0){
    double ex=window_check(p,n,bs0,bs1,rate,maxr,reservoir,1,&wi,&wj,&ws); res_eval(1);
    res_metric("max_window_fill_fraction",(reservoir>0)?ws/reservoir:0);
    /* true-duration accounting differs only by the two edge blocks */
    double edge=(double)maxr*(bs1-bs0)/(4.0*rate);
    if(ex>0) res_viol("C14",ex>edge?"max-exceeded":"max-exceeded-manager-accounting","%s: packets %d..%d emit %.0f bits over max rate x duration, reservoir %.0f: %s",tag,wi,wj,ws,reservoir,desc);
  }
  if(minr>0){
    double ex=window_check(p,n,bs0,bs1,rate,minr,reservoir,0,&wi,&wj,&ws); res_eval(1);
    res_metric("min_window_fill_fraction",(reservoir>0)?ws/reservoir:0);
    if(ex>0) res_viol("C14","min-undershot","%s: packets %d..%d fall %.0f bits short of min rate x duration, reservoir %.0f: %s",tag,wi,wj,ws,reservoir,desc);
  }
}
static void case_c14(const drvargs_t *a,long id){
  rng_t r; rng_seed(&r,a->seed,14,(uint64_t)id);
  res_begin(id);
  enccfg_t c; enccfg_default(&c); char desc[400];
  static const long rates[]={44100,48000,22050,32000,16000,44100,8000,11025,96000,44100};
  c.rate=rates[rng_below(&r,10)]; c.channels= rng_chance(&r,0.15)?(int)rng_range(&r,3,6):(rng_chance(&r,0.5)?1:2);
  c.mode=ENC_MANAGED;
  long nom=(long)(c.rate*c.channels*(0.75+1.5*rng_unit(&r)));
  int kind=(int)(id%4);
  c.br_nom=nom; c.br_max=-1; c.br_min=-1;
  double spread=0.05+0.5*rng_unit(&r);
  if(kind==0) c.br_max=(long)(nom*(1+spread));
  else if(kind==1) c.br_min=(long)(nom*(1-spread));
  else if(kind==2){ c.br_max=(long)(nom*(1+spread)); c.br_min=(long)(nom*(1-spread)); }
  else { c.br_max=nom; c.br_min=nom; }
  if(rng_chance(&r,0.1)){ c.br_nom=-1; } /* limits only, no average target */
  static const double rsecs[]={0.05,0.25,1.0,2.0,4.0,0.01};
  if(rng_chance(&r,0.75)){ c.have_rm2=1; c.rm2_reservoir_bits_secs=rsecs[rng_below(&r,6)]; static const double bs[]={0,0.1,0.5,1.0}; c.rm2_bias=bs[rng_below(&r,4)]; if(rng_chance(&r,0.3)) c.rm2_bias=rng_unit(&r); c.rm2_damping= rng_chance(&r,0.5)?0:0.2+3*rng_unit(&r); }
  static const int sigs[]={SIG_BURSTS,SIG_BURSTS,SIG_CLICKS,SIG_NOISE,SIG_SILENCE,SIG_MULTI,SIG_ENDCLICK,SIG_OVER};
  c.sig=sigs[rng_below(&r,8)]; c.sigseed=rng_next(&r);
  c.nsamples=(long)(c.rate*(a->thorough?(2.0+6.0*rng_unit(&r)):(1.5+2.5*rng_unit(&r)))); if(c.nsamples>200000)c.nsamples=200000;
  c.chunk=CHUNK_RANDOM;
  enccfg_json(&c,desc,sizeof desc);
  { size_t k=strlen(desc); snprintf(desc+k,sizeof desc-k," rsv=%.2fs bias=%.2f",c.have_rm2?c.rm2_reservoir_bits_secs:-1.0,c.have_rm2?c.rm2_bias:-1.0); }
  encres_t er; int ret=enc_run(&c,&er);
  if(ret){ res_count("setups_refused",1); res_sample("refused(%d): %s",ret,desc); encres_free(&er); res_end(); return; }
  res_count("encodes",1);
  int n=0; long bs0,bs1; rpk_t *p=malloc(sizeof(rpk_t)*(er.pk.n+1));
  if(blockflags_from_headers(&er.pk,p,&n,&bs0,&bs1)) res_viol("C05","packet-blocksize-failed","%s",desc);
  else {
    long maxr=er.bitrate_upper>0?er.bitrate_upper:0, minr=er.bitrate_lower>0?er.bitrate_lower:0;
    if((c.br_max>0 && maxr!=c.br_max) || (c.br_min>0 && minr!=c.br_min)) res_count("limits_adjusted_by_setup",1);
    if(!er.managed){ res_viol("C14","management-not-active","hard limits requested (max %ld min %ld) but RATEMANAGE2_GET reports management inactive: %s",c.br_max,c.br_min,desc); }
    else {
      c14_judge(p,n,bs0,bs1,er.rate,maxr,minr,er.rm_reservoir_bits,desc,"encode");
      int nl=0; for(int i=0;i<n;i++) nl+=p[i].W;
      if(!res_nviol()) res_bucket("%s|rsv%s|bias%s|%s|%s",kind==0?"max":kind==1?"min":kind==2?"both":"cbr",
         er.rm_reservoir_bits<er.rate*c.channels*0.2?"small":er.rm_reservoir_bits<er.rate*c.channels*2.0?"mid":"big",
         er.rm_bias<0.05?"0":er.rm_bias>0.95?"1":"mid", (nl==0)?"allshort":(nl==n?"alllong":"mixed"), sig_name(c.sig));
      res_count("packets_windowed",n);
    }
    res_sample("%s -> %d packets, limits %ld/%ld reservoir %.0f bits bias %.2f",desc,n,maxr,minr,er.rm_reservoir_bits,er.rm_bias);
  }
  free(p); encres_free(&er); res_end();
}
/* direct drive: real blocks from the analysis front end, candidate packet sizes chosen adversarially */
static void case_c14d(const drvargs_t *a,long id){
  rng_t r; rng_seed(&r,a->seed,141,(uint64_t)id);
  res_begin(id);
  vorbis_info vi; vorbis_dsp_state vd; vorbis_block vb; char desc[300];
  static const long rates[]={44100,48000,22050,32000,16000,8000};
  long rate=rates[rng_below(&r,6)]; int ch=rng_chance(&r,0.5)?1:2;
  long nom=(long)(rate*ch*(0.75+1.5*rng_unit(&r))); int kind=(int)(id%4);
  long mx=-1,mn=-1; double spread=0.05+0.5*rng_unit(&r);
  if(kind==0) mx=(long)(nom*(1+spread)); else if(kind==1) mn=(long)(nom*(1-spread)); else if(kind==2){ mx=(long)(nom*(1+spread)); mn=(long)(nom*(1-spread)); } else mx=mn=nom;
  vorbis_info_init(&vi);
  int ret=vorbis_encode_setup_managed(&vi,ch,rate,mx,nom,mn);
  if(ret){ vorbis_info_clear(&vi); res_count("setups_refused",1); res_end(); return; }
  struct ovectl_ratemanage2_arg ra;
  vorbis_encode_ctl(&vi,OV_ECTL_RATEMANAGE2_GET,&ra);
  { static const double rsecs[]={0.02,0.1,0.5,2.0,4.0}; double s=rsecs[rng_below(&r,5)];
    long lim= ra.bitrate_limit_max_kbps>0?ra.bitrate_limit_max_kbps:ra.bitrate_limit_min_kbps;
    ra.bitrate_limit_reservoir_bits=(long)(lim*1000.0*s); if(ra.bitrate_limit_reservoir_bits<1) ra.bitrate_limit_reservoir_bits=1;
    if(rng_chance(&r,0.1)) ra.bitrate_limit_reservoir_bits=(long)rng_range(&r,1,4000);
    ra.bitrate_limit_reservoir_bias= rng_chance(&r,0.5)?rng_unit(&r):(double)rng_below(&r,2);
    if(rng_chance(&r,0.3)) ra.bitrate_average_kbps=0;
    if(vorbis_encode_ctl(&vi,OV_ECTL_RATEMANAGE2_SET,&ra)) res_count("rm2_set_refused",1); }
  if(vorbis_encode_setup_init(&vi)){ vorbis_info_clear(&vi); res_count("setups_refused",1); res_end(); return; }
  vorbis_encode_ctl(&vi,OV_ECTL_RATEMANAGE2_GET,&ra);
  long maxr=vi.bitrate_upper>0?vi.bitrate_upper:0, minr=vi.bitrate_lower>0?vi.bitrate_lower:0; double reservoir=ra.bitrate_limit_reservoir_bits;
  long bs0=vorbis_info_blocksize(&vi,0), bs1=vorbis_info_blocksize(&vi,1);
  vorbis_analysis_init(&vd,&vi); vorbis_block_init(&vd,&vb);
  int pattern=(int)((id/4)%7); int real=(id%16==9);
  int nblocks=a->thorough?4000:1500; if(real) nblocks=200;
  snprintf(desc,sizeof desc,"direct drive ch=%d rate=%ld max=%ld nom=%ld min=%ld reservoir=%.0f bias=%.2f avg=%ld pattern=%d real=%d",ch,rate,maxr,nom,minr,reservoir,ra.bitrate_limit_reservoir_bias,ra.bitrate_average_kbps,pattern,real);
  rpk_t *p=malloc(sizeof(rpk_t)*(nblocks+8)); int n=0; static unsigned char zeros[1<<16];
  int sig= rng_chance(&r,0.5)?SIG_BURSTS:SIG_CLICKS; uint64_t ss=rng_next(&r); long pos=0;
  double tgt_short=(double)(maxr>0?maxr:minr)*bs0/2.0/rate/8.0; /* bytes per half short block at the limit rate */
  long phase=0;
  while(n<nblocks){
    long k=rng_range(&r,256,4096);
    float **b=vorbis_analysis_buffer(&vd,(int)k);
    for(int c=0;c<ch;c++) for(long i=0;i<k;i++) b[c][i]=sig_sample(sig,ss,c,pos+i,rate,1L<<30);
    vorbis_analysis_wrote(&vd,(int)k); pos+=k;
    while(n<nblocks && vorbis_analysis_blockout(&vd,&vb)==1){
      vorbis_block_internal *vbi=vb.internal;
      if(real) vorbis_analysis(&vb,NULL);
      double scale=vb.W?(double)bs1/bs0:1.0; long sz[PACKETBLOBS];
      if(++phase%97==0 && pattern==6) pattern=(int)rng_below(&r,6)+100, pattern-=100; /* keep 6 = switching */
      int pat= pattern==6?(int)rng_below(&r,6):pattern;
      for(int i=0;i<PACKETBLOBS;i++){
        double f;
        switch(pat){
        case 0: f=0.3+0.1*i; break;                     /* monotone around the target */
        case 1: f=1.7-0.1*i; break;                     /* reversed */
        case 2: f=1.0; break;                           /* all equal, exactly at the target */
        case 3: f=3.0+rng_unit(&r)*5; break;            /* all huge */
        case 4: f=rng_unit(&r)*0.05; break;             /* all tiny */
        default: f=rng_unit(&r)*2.5; break;             /* random */
        }
        long s=(long)(f*tgt_short*scale); if(s<0)s=0; if(s>60000)s=60000; sz[i]=s;
      }
      if(!real || pattern!=2) for(int i=0;i<PACKETBLOBS;i++){ oggpack_reset(vbi->packetblob[i]); if(sz[i]) oggpack_writecopy(vbi->packetblob[i],zeros,sz[i]*8); }
      vorbis_bitrate_addblock(&vb);
      ogg_packet op;
      while(vorbis_bitrate_flushpacket(&vd,&op)){ p[n].bits=8*op.bytes; p[n].W=vb.W?1:0; n++; }
    }
  }
  res_count("direct_blocks",n);
  c14_judge(p,n,bs0,bs1,rate,maxr,minr,reservoir,desc,"direct");
  if(!res_nviol()){ int nl=0; for(int i=0;i<n;i++) nl+=p[i].W;
    res_bucket("direct|%s|pat%d|%s|%s",kind==0?"max":kind==1?"min":kind==2?"both":"cbr",pattern,reservoir<2000?"tinyrsv":reservoir<rate*ch*0.3?"small":"big",nl==0?"allshort":nl==n?"alllong":"mixed"); }
  res_sample("%s -> %d blocks",desc,n);
  free(p); vorbis_block_clear(&vb); vorbis_dsp_clear(&vd); vorbis_info_clear(&vi);
  res_end();
}

/* ------------------------------------------------------------------ C15 */
static int all_zero(const void *p,size_t n){ const unsigned char *c=p; for(size_t i=0;i<n;i++) if(c[i]) return 0; return 1; }
static double weird_double(rng_t *r){
  switch(rng_below(r,14)){
  case 0: return 0; case 1: return -1; case 2: return 1e9; case 3: return -1e9; case 4: return NAN; case 5: return INFINITY; case 6: return -INFINITY;
  case 7: return 1e-300; case 8: return rng_unit(r); case 9: return 2+98*rng_unit(r); case 10: return -15*rng_unit(r); case 11: return 1e308; case 12: return 0.5; default: return rng_unit(r)*30-15;
  }
}
static long weird_long(rng_t *r){
  switch(rng_below(r,10)){
  case 0: return 0; case 1: return -1; case 2: return 1; case 3: return 0x7fffffffL; case 4: return -0x7fffffffL-1; case 5: return (long)rng_range(r,1,500);
  case 6: return (long)rng_range(r,1000,500000); case 7: return (long)(rng_next(r)>>1); case 8: return -(long)(rng_next(r)>>1); default: return (long)rng_range(r,-5,5);
  }
}
static int ret_ok15(int r){ return r==0||r==OV_EINVAL||r==OV_EIMPL||r==OV_EFAULT; }
static int c15_focus=0;   /* rate-management stratum: requests drawn from the six rate-management codes only, arguments = what GET reports (or a sane draw) with 0-2 fields moved to a boundary value */
static void c15_ctl_script(vorbis_info *vi,rng_t *r,int n,const char *when,char *log,size_t logn){
  size_t k=strlen(log);
  for(int i=0;i<n;i++){
    static const int reqs[]={OV_ECTL_RATEMANAGE_GET,OV_ECTL_RATEMANAGE_SET,OV_ECTL_RATEMANAGE_AVG,OV_ECTL_RATEMANAGE_HARD,OV_ECTL_RATEMANAGE2_GET,
      OV_ECTL_RATEMANAGE2_SET,OV_ECTL_LOWPASS_GET,OV_ECTL_LOWPASS_SET,OV_ECTL_IBLOCK_GET,OV_ECTL_IBLOCK_SET,OV_ECTL_COUPLING_GET,OV_ECTL_COUPLING_SET,0x99,0,-1};
    static const int freqs[]={OV_ECTL_RATEMANAGE_SET,OV_ECTL_RATEMANAGE_AVG,OV_ECTL_RATEMANAGE_HARD,OV_ECTL_RATEMANAGE2_SET,OV_ECTL_RATEMANAGE2_SET,OV_ECTL_RATEMANAGE_AVG,OV_ECTL_RATEMANAGE2_GET,OV_ECTL_RATEMANAGE_GET};
    int req= c15_focus? freqs[rng_below(r,8)] : reqs[rng_below(r,15)]; int ret; int wild=rng_chance(r,0.6); int semi= c15_focus || rng_chance(r,0.3); if(semi) wild=0;
    int basis_get= rng_chance(r,0.5); int npert= semi?(int)rng_below(r,3):0;
    struct ovectl_ratemanage_arg a1; struct ovectl_ratemanage2_arg a2; double d; int iv;
    memset(&a1,0,sizeof a1); memset(&a2,0,sizeof a2);
    switch(req){
    case OV_ECTL_RATEMANAGE_GET: ret=vorbis_encode_ctl(vi,req,&a1); break;
    case OV_ECTL_RATEMANAGE_SET: case OV_ECTL_RATEMANAGE_AVG: case OV_ECTL_RATEMANAGE_HARD:
      if(rng_chance(r,0.25)){ ret=vorbis_encode_ctl(vi,req,NULL); break; }
      vorbis_encode_ctl(vi,OV_ECTL_RATEMANAGE_GET,&a1);
      if(wild){ a1.management_active=(int)rng_range(r,-1,2); a1.bitrate_hard_min=weird_long(r); a1.bitrate_hard_max=weird_long(r); a1.bitrate_hard_window=weird_double(r);
        a1.bitrate_av_lo=weird_long(r); a1.bitrate_av_hi=weird_long(r); a1.bitrate_av_window=weird_double(r); a1.bitrate_av_window_center=weird_double(r); }
      else if(!(semi && basis_get)){ a1.management_active=1; a1.bitrate_hard_min=(long)rng_range(r,0,64000); a1.bitrate_hard_max=(long)rng_range(r,64000,400000); a1.bitrate_hard_window=rng_unit(r)*4;
        a1.bitrate_av_lo=a1.bitrate_av_hi=(long)rng_range(r,32000,300000); a1.bitrate_av_window=rng_unit(r)*4; a1.bitrate_av_window_center=rng_unit(r); }
      for(int p=0;p<npert;p++) switch(rng_below(r,8)){ case 0: a1.management_active=(int)rng_range(r,-1,2); break; case 1: a1.bitrate_hard_min=weird_long(r); break; case 2: a1.bitrate_hard_max=weird_long(r); break; case 3: a1.bitrate_hard_window=weird_double(r); break;
        case 4: a1.bitrate_av_lo=weird_long(r); break; case 5: a1.bitrate_av_hi=weird_long(r); break; case 6: a1.bitrate_av_window=weird_double(r); break; default: a1.bitrate_av_window_center=weird_double(r); break; }
      ret=vorbis_encode_ctl(vi,req,&a1); break;
    case OV_ECTL_RATEMANAGE2_GET: ret=vorbis_encode_ctl(vi,req,&a2); break;
    case OV_ECTL_RATEMANAGE2_SET:
      if(rng_chance(r,0.25)){ ret=vorbis_encode_ctl(vi,req,NULL); break; }
      vorbis_encode_ctl(vi,OV_ECTL_RATEMANAGE2_GET,&a2);
      if(wild){ a2.management_active=(int)rng_range(r,-1,2); a2.bitrate_limit_min_kbps=weird_long(r); a2.bitrate_limit_max_kbps=weird_long(r); a2.bitrate_limit_reservoir_bits=weird_long(r);
        a2.bitrate_limit_reservoir_bias=weird_double(r); a2.bitrate_average_kbps=weird_long(r); a2.bitrate_average_damping=weird_double(r); }
      else if(!(semi && basis_get)){ a2.management_active=1; a2.bitrate_limit_min_kbps=(long)rng_range(r,0,64); a2.bitrate_limit_max_kbps=(long)rng_range(r,64,400); a2.bitrate_limit_reservoir_bits=(long)rng_range(r,0,1000000);
        a2.bitrate_limit_reservoir_bias=rng_unit(r); a2.bitrate_average_kbps= (semi&&rng_chance(r,0.3))?0:(long)rng_range(r,64,300); a2.bitrate_average_damping=0.1+rng_unit(r)*3; }
      else if(rng_chance(r,0.5)) a2.management_active=1;
      for(int p=0;p<npert;p++) switch(rng_below(r,7)){ case 0: a2.management_active=(int)rng_range(r,-1,2); break; case 1: a2.bitrate_limit_min_kbps=weird_long(r); break; case 2: a2.bitrate_limit_max_kbps=weird_long(r); break; case 3: a2.bitrate_limit_reservoir_bits=weird_long(r); break;
        case 4: a2.bitrate_limit_reservoir_bias=weird_double(r); break; case 5: a2.bitrate_average_kbps=weird_long(r); break; default: a2.bitrate_average_damping=weird_double(r); break; }
      ret=vorbis_encode_ctl(vi,req,&a2); break;
    case OV_ECTL_LOWPASS_GET: case OV_ECTL_IBLOCK_GET: ret=vorbis_encode_ctl(vi,req,&d); break;
    case OV_ECTL_LOWPASS_SET: d= wild?weird_double(r):2+rng_unit(r)*97; ret=vorbis_encode_ctl(vi,req,&d); break;
    case OV_ECTL_IBLOCK_SET: d= wild?weird_double(r):-15*rng_unit(r); ret=vorbis_encode_ctl(vi,req,&d); break;
    case OV_ECTL_COUPLING_GET: ret=vorbis_encode_ctl(vi,req,&iv); break;
    case OV_ECTL_COUPLING_SET: iv= wild?(int)weird_long(r):(int)rng_below(r,2); ret=vorbis_encode_ctl(vi,req,&iv); break;
    default: ret=vorbis_encode_ctl(vi,req,&d); if(ret==0) res_viol("C15","unknown-ctl-accepted","request 0x%x returned 0 %s",req,when); break;
    }
    if(!ret_ok15(ret)) res_viol("C15","ctl-return-domain","request 0x%x returned %d %s",req,ret,when);
    res_count(ret==0?"ctl_accepted":"ctl_refused",1);
    if(k+24<logn) k+=snprintf(log+k,logn-k," %s%x:%d",when[0]=='a'?"+":"",req,ret);
  }
}
/* boundary search: the accepted nominal bitrates (or qualities) of one (channels, rate) form an interval; its two ends are found by bisection over real set-up calls, so the
   values that sit exactly on the library's own table edges are tried whatever those tables are */
static int c15_accept_managed(int ch,long rate,long bnom){ vorbis_info vi; vorbis_info_init(&vi); int r=vorbis_encode_setup_managed(&vi,ch,rate,-1,bnom,-1); vorbis_info_clear(&vi); return r==0; }
static int c15_accept_vbr(int ch,long rate,float q){ vorbis_info vi; vorbis_info_init(&vi); int r=vorbis_encode_setup_vbr(&vi,ch,rate,q); vorbis_info_clear(&vi); return r==0; }
static int c15_managed_edges(int ch,long rate,long *lo,long *hi){
  long b=0; double f[]={1.0,0.5,2.0,0.25,4.0,0.125,3.0,1.5,0.75};
  for(int i=0;i<9 && !b;i++){ long t=(long)(rate*(double)ch*f[i]); if(t>0 && c15_accept_managed(ch,rate,t)) b=t; }
  if(!b) return 0;
  long good=b,bad=b; while(bad<(1L<<40) && c15_accept_managed(ch,rate,bad)){ good=bad; bad*=2; }
  if(bad>=(1L<<40)) return 0;
  while(bad-good>1){ long m=good+(bad-good)/2; if(c15_accept_managed(ch,rate,m)) good=m; else bad=m; }
  *hi=good;
  good=b; bad=0; while(good-bad>1){ long m=bad+(good-bad)/2; if(c15_accept_managed(ch,rate,m)) good=m; else bad=m; }
  *lo=good; return 1;
}
static int c15_vbr_edges(int ch,long rate,float *lo,float *hi){
  if(!c15_accept_vbr(ch,rate,0.4f)) return 0;
  int have=0; float good=0.4f,bad=4.0f;
  if(!c15_accept_vbr(ch,rate,bad)){   /* (the pinned tree clamps every quality above 1 to just below 1, so there is no upper edge there) */
    for(int i=0;i<60 && nextafterf(good,bad)!=bad;i++){ float m=good+(bad-good)*0.5f; if(m==good||m==bad) break; if(c15_accept_vbr(ch,rate,m)) good=m; else bad=m; }
    *hi=good; have|=2; }
  good=0.4f; bad=-4.0f;
  if(!c15_accept_vbr(ch,rate,bad)){
    for(int i=0;i<60 && nextafterf(good,bad)!=bad;i++){ float m=good+(bad-good)*0.5f; if(m==good||m==bad) break; if(c15_accept_vbr(ch,rate,m)) good=m; else bad=m; }
    *lo=good; have|=1; }
  return have;
}
static int c15_long_encode=0;
/* deterministic pairwise stratum: one field of a RATEMANAGE2_SET argument at one of ten boundary values (the rest sane), followed by one request of the deprecated interface (or none):
   7 fields x 10 values x 4 follow-ups, enumerated by k - settings that each interface validates on its own can combine into something neither checked */
static void c15_pairwise(vorbis_info *vi,long k,rng_t *r,char *log,size_t logn){
  static const double dv[10]={0,-1.5,1e-300,NAN,INFINITY,-INFINITY,1e9,0.5,1.0,-1e-9};
  static const long lv[10]={0,-1,1,0x7fffffffL,-0x7fffffffL-1,64,100000,2,-64,1000};
  int f=(int)(k%7), v=(int)((k/7)%10), follow=(int)((k/70)%4); size_t n=strlen(log);
  struct ovectl_ratemanage2_arg a2; memset(&a2,0,sizeof a2); vorbis_encode_ctl(vi,OV_ECTL_RATEMANAGE2_GET,&a2);
  a2.management_active=1; if(!(a2.bitrate_average_damping>0)) a2.bitrate_average_damping=1.5; if(a2.bitrate_limit_reservoir_bits<=0) a2.bitrate_limit_reservoir_bits=(long)rng_range(r,20000,400000);
  switch(f){ case 0: a2.management_active=(int)lv[v]; break; case 1: a2.bitrate_limit_min_kbps=lv[v]; break; case 2: a2.bitrate_limit_max_kbps=lv[v]; break; case 3: a2.bitrate_limit_reservoir_bits=lv[v]; break;
    case 4: a2.bitrate_limit_reservoir_bias=dv[v]; break; case 5: a2.bitrate_average_kbps=lv[v]; break; default: a2.bitrate_average_damping=dv[v]; break; }
  int r1=vorbis_encode_ctl(vi,OV_ECTL_RATEMANAGE2_SET,&a2); if(!ret_ok15(r1)) res_viol("C15","ctl-return-domain","RATEMANAGE2_SET returned %d (pairwise field %d value %d)",r1,f,v);
  int r2=1; struct ovectl_ratemanage_arg a1; memset(&a1,0,sizeof a1); vorbis_encode_ctl(vi,OV_ECTL_RATEMANAGE_GET,&a1);
  long per=(long)(vi->rate>0?vi->rate:44100)*(vi->channels>0?vi->channels:2);
  if(follow==1){ a1.bitrate_av_lo=a1.bitrate_av_hi=(long)(per*(1.0+rng_unit(r))); a1.bitrate_av_window=0.5; a1.bitrate_av_window_center=0.5; r2=vorbis_encode_ctl(vi,OV_ECTL_RATEMANAGE_AVG,&a1); }
  else if(follow==2){ a1.bitrate_hard_min=(long)(per*0.5); a1.bitrate_hard_max=(long)(per*2.5); a1.bitrate_hard_window=0.2+rng_unit(r); r2=vorbis_encode_ctl(vi,OV_ECTL_RATEMANAGE_HARD,&a1); }
  else if(follow==3){ a1.management_active=1; a1.bitrate_hard_min=0; a1.bitrate_hard_max=(long)(per*2.5); a1.bitrate_hard_window=0.5; a1.bitrate_av_lo=a1.bitrate_av_hi=(long)(per*1.2); a1.bitrate_av_window=0.5; a1.bitrate_av_window_center=0.5; r2=vorbis_encode_ctl(vi,OV_ECTL_RATEMANAGE_SET,&a1); }
  if(follow && !ret_ok15(r2)) res_viol("C15","ctl-return-domain","deprecated rate-management request %d returned %d",follow,r2);
  res_count("pairwise_rate_management_cases",1); res_bucket("pairwise|field%d|value%d|follow%d|%s",f,v,follow,r1?"refused":"accepted");
  if(n+60<logn) snprintf(log+n,logn-n," pairwise(field %d value %d -> %d, follow-up %d -> %d)",f,v,r1,follow,follow?r2:0);
}
static void case_c15(const drvargs_t *a,long id){
  rng_t r; rng_seed(&r,a->seed,15,(uint64_t)id); c15_long_encode=0;
  res_begin(id);
  static const long edges[]={8000,9000,15000,19000,26000,40000,50000,200000};
  static const long common[]={8000,11025,12000,16000,22050,24000,32000,44100,48000,64000,88200,96000,192000};
  int ch; long rate; float q=0.4f; long bmax=-1,bnom=-1,bmin=-1;
  int cs=(int)rng_below(&r,100);
  ch = cs<35 ? (int)rng_range(&r,1,2) : cs<55 ? (int)rng_range(&r,3,8) : cs<62 ? (int)rng_range(&r,-1,0) : cs<72 ? (int)rng_range(&r,250,300) : (int)rng_range(&r,-1,300);
  if(!a->thorough) { /* quick: cover all of -1..300 round-robin on a fixed sub-sequence */ if(id%5==0) ch=(int)((id/5)%302)-1; }
  else if(id%4==0) ch=(int)((id/4)%302)-1;
  int rs=(int)rng_below(&r,100);
  if(rs<35) rate=common[rng_below(&r,13)];
  else if(rs<65) rate=edges[rng_below(&r,8)]+rng_range(&r,-2,2);
  else if(rs<75){ static const long odd[]={-1,0,1,2,7999,200001,0x7fffffffL,1000000,3999,4000}; rate=odd[rng_below(&r,10)]; }
  else rate=(long)(4000*pow(50.0025,rng_unit(&r)));
  int qs=(int)rng_below(&r,100);
  if(qs<60) q=(float)(-0.2+0.05*rng_below(&r,29)); else if(qs<70) q=NAN; else if(qs<75) q=INFINITY; else if(qs<80) q=-INFINITY; else if(qs<85) q=-1e9f; else if(qs<90) q=1e9f; else q=(float)(rng_unit(&r)*1.3-0.15);
  int bsel=(int)rng_below(&r,100);
  { long per=(long)((rate>0&&rate<300000?rate:44100)*(ch>0&&ch<300?ch:2)*(0.3+2.5*rng_unit(&r)));
    if(bsel<40){ bnom=per; } else if(bsel<55){ bnom=per; bmax=(long)(per*1.3); bmin=(long)(per*0.7); } else if(bsel<63){ bmax=per; } else if(bsel<70){ bmin=per; }
    else if(bsel<78){ bmax=per/2; bnom=per; bmin=per*2; } else if(bsel<86){ bmax=weird_long(&r); bnom=weird_long(&r); bmin=weird_long(&r); } else if(bsel<92){ bnom=0; bmax=0; bmin=0; } else { bnom=per; bmax=per; bmin=per; } }
  int entry=(int)rng_below(&r,4);
  if(id%8==3){   /* edge stratum: sensible channels and rates, the request placed exactly on (or one step beside) the end of the accepted interval */
    static const int chs[]={1,2,1,2,3,4,5,6,7,8,2,6}; ch=chs[rng_below(&r,12)]; int k=(int)rng_below(&r,100);
    rate= k<50?common[rng_below(&r,13)]: k<80?edges[rng_below(&r,8)]+rng_range(&r,-1,1):(long)(8000*pow(24.0,rng_unit(&r)));
    if(entry==1||entry==2){ long lo,hi;
      if(c15_managed_edges(ch,rate,&lo,&hi)){ int w=(int)rng_below(&r,6); long v= w==0?hi: w==1?lo: w==2?hi+1: w==3?lo-1: w==4?hi-1:lo+1; int form=(int)rng_below(&r,4);
        bmax=bnom=bmin=-1; if(form==0) bnom=v; else if(form==1){ bnom=v; bmax=v; bmin=v; } else if(form==2){ bmax=v; } else { bnom=v; bmax=(long)(v*1.2); }
        res_count("managed_edge_requests",1); res_bucket("edge|managed|%s|form%d",w==0?"top":w==1?"bottom":w==2?"top+1":w==3?"bottom-1":w==4?"top-1":"bottom+1",form); } }
    else { float lo=0,hi=0; int have=c15_vbr_edges(ch,rate,&lo,&hi); int w=(int)rng_below(&r,6);
      if((w<3 && (have&1)) || !(have&2)){ if(have&1){ q= w%3==0?lo: w%3==1?nextafterf(lo,-9.f):nextafterf(lo,9.f); res_count("vbr_edge_requests",1); res_bucket("edge|vbr|bottom%d",w%3); } }
      else { q= w%3==0?hi: w%3==1?nextafterf(hi,9.f):nextafterf(hi,-9.f); res_count("vbr_edge_requests",1); res_bucket("edge|vbr|top%d",w%3); } }
  }
  if(id%9==1){ /* pairwise rate-management stratum (c15_pairwise): a set-up that succeeds, through either three-step call */
    long kk=id/9; entry=(int)((kk/280)%2); ch=1+(int)(kk%2); rate=common[3+rng_below(&r,6)]; q=0.1f+0.1f*(float)rng_below(&r,8); bmax=bmin=-1; bnom=(long)(rate*ch*(1.0+rng_unit(&r))); }
  char desc[500]; snprintf(desc,sizeof desc,"entry=%s ch=%d rate=%ld q=%g br=%ld/%ld/%ld ctl:",entry==0?"setup_vbr":entry==1?"setup_managed":entry==2?"init":"init_vbr",ch,rate,(double)q,bmax,bnom,bmin);
  vorbis_info vi; vorbis_info_init(&vi);
  int ret;
  /* "any sequence of control requests": requests may also come before the set-up call, instead of it, or after it was refused (the three-step calls do not clear a refused info) */
  int early= entry<2 && id%7==2, nosetup= early && rng_chance(&r,0.5);
  if(early){ c15_ctl_script(&vi,&r,1+(int)rng_below(&r,5),"before the set-up call",desc,sizeof desc); res_count("ctl_scripts_before_the_setup_call",1); }
  if(nosetup){ ch=vi.channels; rate=vi.rate; entry=4; strncat(desc," [no set-up call]",sizeof desc-strlen(desc)-1); }
  switch(entry){
  case 4: ret=0; res_count("setup_init_without_a_setup_call",1); break;
  case 0: ret=vorbis_encode_setup_vbr(&vi,ch,rate,q); break;
  case 1: ret=vorbis_encode_setup_managed(&vi,ch,rate,bmax,bnom,bmin); break;
  case 2: ret=vorbis_encode_init(&vi,ch,rate,bmax,bnom,bmin); break;
  default: ret=vorbis_encode_init_vbr(&vi,ch,rate,q); break;
  }
  res_eval(1);
  if(!ret_ok15(ret)) res_viol("C15","setup-return-domain","%d: %s",ret,desc);
  int ok=(ret==0);
  if(ret && entry>=2 && !all_zero(&vi,sizeof vi)) res_viol("C15","one-step-failure-leaves-info-set","ret %d but vorbis_info not cleared: %s",ret,desc);
  int carry= !ok && entry<2 && rng_chance(&r,0.5);   /* the application ignores the refusal and carries on */
  if(carry) res_count("carried_on_after_a_refused_setup_call",1);
  if((ok && (entry<2||entry==4)) || carry){
    int focus= !carry && entry<2 && (id%9==1||id%9==4||id%9==7);   /* rate-management stratum: 6-16 such requests, then (below) about a second of audio so that the manager's state really evolves */
    if(focus){ c15_focus=1; res_count("rate_management_request_scripts",1); }
    if(focus && id%9==1) c15_pairwise(&vi,id/9,&r,desc,sizeof desc);
    else c15_ctl_script(&vi,&r,focus?6+(int)rng_below(&r,11):(int)rng_below(&r,7)+(carry||entry==4),"before setup_init",desc,sizeof desc);
    c15_focus=0; if(focus){ struct ovectl_ratemanage2_arg g; memset(&g,0,sizeof g); if(vorbis_encode_ctl(&vi,OV_ECTL_RATEMANAGE2_GET,&g)==0 && g.management_active) c15_long_encode=1; }   /* long encode only when the manager will really run */
    ret=vorbis_encode_setup_init(&vi); res_eval(1);
    if(!ret_ok15(ret)) res_viol("C15","setup-init-return-domain","%d: %s",ret,desc);
    if(ret) ok=0;
    else { ok=1; if(carry) res_count("setup_init_accepted_after_a_refused_setup_call",1); if(entry==4) res_count("setup_init_accepted_without_a_setup_call",1);
      c15_ctl_script(&vi,&r,(int)rng_below(&r,5),"after setup_init",desc,sizeof desc); }
  } else if(ok){
    c15_ctl_script(&vi,&r,(int)rng_below(&r,4),"after setup_init",desc,sizeof desc);
  }
  res_count(ok?"setups_accepted":"setups_refused",1);
  if(ok){
    if(vi.channels!=ch||vi.rate!=rate) res_viol("C15","info-mismatch","vi reports %d/%ld, requested %d/%ld: %s",vi.channels,vi.rate,ch,rate,desc);
    if(ch<1||ch>255||rate<1) res_viol("C15","absurd-arguments-accepted","%s",desc);
    /* init, headers, encode M samples, decode the headers, clear */
    int cont= (id%6==0) || ch>8 || rate>100000 || !a->thorough;
    if(ch>64 && id%3) cont=0;
    /* an accepted hard minimum far above any sensible rate makes every packet megabytes of padding: legal, finite, and not worth the time */
    if(vi.bitrate_lower>0 && (double)vi.bitrate_lower>24.0*(double)rate*ch){ cont=0; res_count("absurd_min_rate_accepted_encode_skipped",1); }
    if(cont){
      vorbis_dsp_state vd; vorbis_block vb; vorbis_comment vc; ogg_packet h[3], op;
      if(vorbis_analysis_init(&vd,&vi)) res_viol("C15","analysis-init-failed","%s",desc);
      else {
        vorbis_comment_init(&vc); vorbis_block_init(&vd,&vb);
        if(vorbis_analysis_headerout(&vd,&vc,&h[0],&h[1],&h[2])) res_viol("C15","headerout-failed","%s",desc);
        else {
          vorbis_info di; vorbis_comment dc; vorbis_info_init(&di); vorbis_comment_init(&dc);
          for(int i=0;i<3;i++){ int hr=vorbis_synthesis_headerin(&di,&dc,&h[i]); if(hr){ res_viol("C05","header-rejected","header %d: %d: %s",i,hr,desc); break; } }
          if(di.channels!=ch||di.rate!=rate) res_viol("C05","header-fields-differ","header says %d/%ld: %s",di.channels,di.rate,desc);
          vorbis_comment_clear(&dc); vorbis_info_clear(&di);
        }
        static const long Ms[]={0,1,5000,700,9,13,16,33};   /* incl. totals shorter than the encoder's extrapolation order */
        long M=Ms[rng_below(&r,8)]; if(c15_long_encode && rate>0){ M=(long)((rate>60000?60000:rate)*(0.8+0.6*rng_unit(&r))); if(ch>8) M/=4; res_count("long_encodes_after_rate_management_requests",1); } if(ch>32 && M>700) M=700; long done=0, pk=0;
        int sig= rng_chance(&r,0.4)?SIG_NOISE:(rng_chance(&r,0.5)?SIG_BURSTS:(rng_chance(&r,0.5)?SIG_OVER:SIG_ALT)); uint64_t ss=rng_next(&r);   /* incl. input hotter than full scale */
        ogg_int64_t lastg=-1; int overlong=0; int mistake= rng_chance(&r,0.25);   /* an application error in mid-stream: more samples reported than were requested */
        while(done<M){ long n=(long)rng_range(&r,1,2048); if(n>M-done) n=M-done; float **b=vorbis_analysis_buffer(&vd,(int)n);
          for(int c=0;c<ch;c++) for(long i=0;i<n;i++) b[c][i]=sig_sample(sig,ss,c,done+i,rate,M);
          if(mistake && !overlong && rng_chance(&r,0.3)){ overlong=1; int wr=vorbis_analysis_wrote(&vd,(int)n+(int)rng_range(&r,100000,4000000)); res_count("overlong_wrote_reports",1);
            if(wr!=OV_EINVAL) res_viol("C15","overlong-wrote-not-refused","vorbis_analysis_wrote with more samples than requested returned %d: %s",wr,desc);
            if(rng_chance(&r,0.5)) while(vorbis_analysis_blockout(&vd,&vb)==1){ vorbis_analysis(&vb,NULL); vorbis_bitrate_addblock(&vb); while(vorbis_bitrate_flushpacket(&vd,&op)){ pk++; lastg=op.granulepos; } } }
          { int wr=vorbis_analysis_wrote(&vd,(int)n); if(wr) res_viol("C15","wrote-refused-after-refused-report","a correct vorbis_analysis_wrote(%ld) returned %d%s: %s",n,wr,overlong?" after an over-long report had been refused":"",desc); } done+=n;
          while(vorbis_analysis_blockout(&vd,&vb)==1){ vorbis_analysis(&vb,NULL); vorbis_bitrate_addblock(&vb); while(vorbis_bitrate_flushpacket(&vd,&op)){ pk++; lastg=op.granulepos; } } }
        vorbis_analysis_wrote(&vd,0);
        while(vorbis_analysis_blockout(&vd,&vb)==1){ vorbis_analysis(&vb,NULL); vorbis_bitrate_addblock(&vb); while(vorbis_bitrate_flushpacket(&vd,&op)){ pk++; lastg=op.granulepos; } }
        if(overlong && M>0 && lastg!=M) res_viol("C15","refused-report-changed-the-stream","%ld samples accepted, one over-long report refused, final granule position %lld: %s",M,(long long)lastg,desc);
        res_count("encoded_after_setup",1); res_count("packets_after_setup",pk);
        vorbis_block_clear(&vb); vorbis_dsp_clear(&vd); vorbis_comment_clear(&vc);
      }
    }
    res_bucket("ok|%s%s|ch%s|band%d",entry==4?"ctl_only":entry==0?"setup_vbr":entry==1?"setup_managed":entry==2?"init":"init_vbr",carry?"+carried-on":early?"+early-ctl":"",ch==1?"1":ch==2?"2":ch<=8?"3-8":"9+",rate_band(rate));
  } else {
    res_bucket("refused%d|%s%s|ch%s|rate%s",ret,entry==4?"ctl_only":entry==0?"setup_vbr":entry==1?"setup_managed":entry==2?"init":"init_vbr",carry?"+carried-on":early?"+early-ctl":"",ch<1?"<1":ch>255?">255":"ok",rate<8000?"<8k":rate>200000?">200k":"ok");
  }
  vorbis_info_clear(&vi);
  if(!all_zero(&vi,sizeof vi)) res_viol("C15","info-not-zero-after-clear","%s",desc);
  vorbis_info_clear(&vi); /* repeatable */
  res_sample("%s => %s",desc,ok?"accepted":"refused");
  res_end();
}

/* ------------------------------------------------------------------ C16 */
/* hostile ctype: a library that consults libc case mapping gets Turkish/Latin-1 style answers */
long c16_libc_case_calls=0;
int __wrap_toupper(int c){ c16_libc_case_calls++; if(c=='i') return 0xDD; if(c>=0xE0&&c<=0xFE) return c-0x20; if(c>='a'&&c<='z') return c-32; return c; }
int __wrap_tolower(int c){ c16_libc_case_calls++; if(c=='I') return 0xFD; if(c>=0xC0&&c<=0xDE) return c+0x20; if(c>='A'&&c<='Z') return c+32; return c; }
static int hostile_up(int c){ c&=0xff; if(c=='i') return 0xDD; if(c>=0xE0&&c<=0xFE) return c-0x20; if(c>='a'&&c<='z') return c-32; return c; }
int __wrap_strncasecmp(const char *a,const char *b,size_t n){ c16_libc_case_calls++; for(size_t i=0;i<n;i++){ int x=hostile_up((unsigned char)a[i]),y=hostile_up((unsigned char)b[i]); if(x!=y) return x-y; if(!a[i]) break; } return 0; }
int __wrap_strcasecmp(const char *a,const char *b){ return __wrap_strncasecmp(a,b,(size_t)-1); }
static int32_t host_up_tab[384], host_lo_tab[384]; static const int32_t *host_up_p, *host_lo_p;
const int32_t **__wrap___ctype_toupper_loc(void){ c16_libc_case_calls++; if(!host_up_p){ for(int i=-128;i<256;i++) host_up_tab[i+128]= i<0? i : hostile_up(i); host_up_p=host_up_tab+128; } return &host_up_p; }
const int32_t **__wrap___ctype_tolower_loc(void){ c16_libc_case_calls++; if(!host_lo_p){ for(int i=-128;i<256;i++) host_lo_tab[i+128]= i<0? i : __wrap_tolower(i); host_lo_p=host_lo_tab+128; c16_libc_case_calls-=384; } return &host_lo_p; }

static int ascii_up(int c){ return (c>='a'&&c<='z')?c-32:c; }
/* model: does comment (bytes, len, C-string view up to first NUL) start with tag '=' under ASCII-only folding? */
static int model_match(const unsigned char *com,int len,const char *tag){
  size_t tl=strlen(tag);
  for(size_t i=0;i<tl;i++){ if((int)i>=len) return 0; if(com[i]==0) return 0; if(ascii_up(com[i])!=ascii_up((unsigned char)tag[i])) return 0; }
  return ((int)tl<len && com[tl]=='=');
}
typedef struct { unsigned char *p; int len; int isnull; } com_t;
static void case_c16(const drvargs_t *a,long id){
  rng_t r; rng_seed(&r,a->seed,16,(uint64_t)id);
  res_begin(id);
  int ncls=(int)(id%6); int n;
  n= ncls==0?0: ncls==1?1: ncls==2?(int)rng_range(&r,2,12): ncls==3?(int)rng_range(&r,12,200): ncls==4?(int)rng_range(&r,2,40):(int)rng_range(&r,200,a->thorough?5000:1500);
  com_t *cm=calloc(n+1,sizeof *cm);
  static const char *tags[]={"TITLE","title","Title","ARTIST","artist","TIT","TITLE2","I","i","caf\xe9","CAF\xc9","\xfd","\xdd","","=","A=B","x","X","album","ALBUM ","tItLe","T\xc4G","t\xe4g",
    "A[","a{","A{","a[","@X","`x","`X","@x","Z]","z}","tag@","TAG`","{}","[]","^_`","~"};   /* the characters just outside 'A'..'Z' / 'a'..'z' */
  int ntags=(int)(sizeof tags/sizeof *tags); int use_explicit=0, has_null=0; long totbytes=0;
  for(int i=0;i<n;i++){
    int kind=(int)rng_below(&r,100); buf_t b; buf_init(&b);
    if(kind<55){ const char *t=tags[rng_below(&r,ntags)]; buf_add(&b,t,strlen(t)); if(rng_chance(&r,0.9)) buf_add(&b,"=",1);
      int vl=(int)rng_below(&r,40); for(int k=0;k<vl;k++){ unsigned char c=(unsigned char)(rng_chance(&r,0.8)?rng_range(&r,32,126):rng_range(&r,1,255)); buf_add(&b,&c,1); } }
    else if(kind<65){ /* empty string */ }
    else if(kind<80){ int l=(int)rng_below(&r,60); for(int k=0;k<l;k++){ unsigned char c=(unsigned char)rng_range(&r,1,255); buf_add(&b,&c,1); } }
    else if(kind<90){ /* embedded NULs (explicit lengths) */ int l=(int)rng_range(&r,1,50); for(int k=0;k<l;k++){ unsigned char c=(unsigned char)(rng_chance(&r,0.2)?0:rng_range(&r,0,255)); buf_add(&b,&c,1); } use_explicit=1; }
    else if(kind<94 && ncls!=5){ long l= (ncls==4)?(long)rng_range(&r,1000,a->thorough?300000:80000):(long)rng_range(&r,100,3000); const char *t=tags[rng_below(&r,ntags)]; buf_add(&b,t,strlen(t)); buf_add(&b,"=",1);
      for(long k=0;k<l;k++){ unsigned char c=(unsigned char)('a'+(k*7+i)%26); buf_add(&b,&c,1); } }
    else if(kind<97){ cm[i].isnull=1; has_null=1; use_explicit=1; }
    else { const char *t=tags[rng_below(&r,ntags)]; buf_add(&b,t,strlen(t)); buf_add(&b,"=",1); }
    cm[i].len=(int)b.n; cm[i].p=malloc(b.n+1); if(b.n) memcpy(cm[i].p,b.p,b.n); cm[i].p[b.n]=0; totbytes+=b.n; buf_free(&b);
    if(cm[i].isnull){ cm[i].len=0; }
  }
  /* build the source comment structure */
  vorbis_comment vc; vorbis_comment_init(&vc);
  if(!use_explicit){
    for(int i=0;i<n;i++){
      /* add_tag when the entry splits cleanly, else add */
      char *eq=strchr((char*)cm[i].p,'=');
      if(eq && rng_chance(&r,0.5)){ *eq=0; vorbis_comment_add_tag(&vc,(char*)cm[i].p,eq+1); *eq='='; }
      else vorbis_comment_add(&vc,(char*)cm[i].p);
    }
  } else {
    vc.user_comments=calloc(n+1,sizeof(char*)); vc.comment_lengths=calloc(n+1,sizeof(int)); vc.comments=n;
    for(int i=0;i<n;i++){ if(cm[i].isnull){ vc.user_comments[i]=NULL; vc.comment_lengths[i]=0; } else { vc.user_comments[i]=malloc(cm[i].len+1); memcpy(vc.user_comments[i],cm[i].p,cm[i].len+1); vc.comment_lengths[i]=cm[i].len; } }
  }
  /* the vendor field of the structure handed to the writers is not theirs to copy: the packet carries the library's own string */
  int foreign_vendor= rng_chance(&r,0.3);
  if(foreign_vendor){ const char *fv="Somebody else's encoder 0.1"; vc.vendor=malloc(strlen(fv)+1); strcpy(vc.vendor,fv); }
  /* two ways of producing the comment header */
  int way=(int)rng_below(&r,2); ogg_packet h[3]; memset(h,0,sizeof h);
  vorbis_info vi; vorbis_dsp_state vd; int enc_live=0;
  vorbis_info_init(&vi);
  if(vorbis_encode_init_vbr(&vi,1+(int)rng_below(&r,2),44100,0.3f)){ res_viol("C15","setup-refused","plain 44.1k setup"); goto done; }
  vorbis_analysis_init(&vd,&vi); enc_live=1;
  {
    ogg_packet hc; ogg_packet h2alt; memset(&h2alt,0,sizeof h2alt);
    int r1=vorbis_analysis_headerout(&vd,&vc,&h[0],&hc,&h[2]);
    if(r1){ res_viol("C16","headerout-failed","%d",r1); goto done; }
    h[1]=hc;
    int r2=vorbis_commentheader_out(&vc,&h2alt);
    if(r2){ res_viol("C16","commentheader-out-failed","%d",r2); }
    else {
      if(h2alt.bytes!=hc.bytes || memcmp(h2alt.packet,hc.packet,hc.bytes)) res_viol("C16","two-header-writers-disagree","headerout %ld bytes, commentheader_out %ld bytes",hc.bytes,h2alt.bytes);
      if(way){ h[1]=h2alt; h[1].packetno=1; }
    }
    /* independent parse of the packet bytes */
    const unsigned char *p=h[1].packet; long L=h[1].bytes, o=7; res_eval(1);
    long vlen=-1; const unsigned char *vend=NULL;
    if(L<11||p[0]!=3||memcmp(p+1,"vorbis",6)) res_viol("C16","comment-packet-magic","bytes %ld",L);
    else {
      vlen=p[o]|(p[o+1]<<8)|(p[o+2]<<16)|((long)p[o+3]<<24); o+=4; vend=p+o; o+=vlen;
      if(o+4>L) res_viol("C16","comment-packet-truncated","vendor");
      else {
        long cnt=p[o]|(p[o+1]<<8)|(p[o+2]<<16)|((long)p[o+3]<<24); o+=4;
        if(cnt!=n) res_viol("C16","packet-count","packet says %ld comments, %d given",cnt,n);
        else {
          for(int i=0;i<n;i++){
            if(o+4>L){ res_viol("C16","comment-packet-truncated","entry %d",i); break; }
            long l=p[o]|(p[o+1]<<8)|(p[o+2]<<16)|((long)p[o+3]<<24); o+=4;
            if(l!=cm[i].len||o+l>L||memcmp(p+o,cm[i].p,l)){ res_viol("C16","packet-entry-differs","entry %d: len %ld vs %d",i,l,cm[i].len); break; }
            o+=l;
          }
          if(o>=L||!(p[o]&1)) res_viol("C16","packet-framing-bit","offset %ld of %ld",o,L);
        }
      }
    }
    /* read back through the decoder */
    vorbis_info di; vorbis_comment dc; vorbis_info_init(&di); vorbis_comment_init(&dc);
    int e0=vorbis_synthesis_headerin(&di,&dc,&h[0]); int e1=e0?e0:vorbis_synthesis_headerin(&di,&dc,&h[1]); res_eval(1);
    if(e1) res_viol("C16","comment-header-rejected","headerin %d/%d (n=%d, %ld bytes)",e0,e1,n,totbytes);
    else {
      if(rng_chance(&r,0.3)){ /* a duplicated header packet (remuxer, retry) is refused - and the refusal must leave what was read before as it was */
        int which=(int)rng_below(&r,2); int e2=vorbis_synthesis_headerin(&di,&dc,&h[which]); res_eval(1); res_count("repeated_header_packets_offered",1);
        if(e2>=0) res_viol("C16","repeated-header-accepted","a second %s header was accepted (%d)",which?"comment":"identification",e2);
      }
      int same=1;
      if(dc.comments!=n){ res_viol("C16","count-differs","read back %d, wrote %d",dc.comments,n); same=0; }
      else for(int i=0;i<n;i++){
        if(!dc.user_comments[i]){ res_viol("C16","entry-is-null","entry %d of %d (length %d written) read back as a NULL pointer",i,n,cm[i].len); same=0; break; }
        if(dc.comment_lengths[i]!=cm[i].len || memcmp(dc.user_comments[i],cm[i].p,cm[i].len) || dc.user_comments[i][cm[i].len]!=0){ res_viol("C16","entry-differs","entry %d of %d: length %d vs %d",i,n,dc.comment_lengths[i],cm[i].len); same=0; break; }
      }
      if(n>=0 && dc.user_comments && dc.user_comments[dc.comments]!=NULL) res_viol("C16","list-not-null-terminated","n=%d",n);
      if(!dc.vendor || vlen<0 || (long)strlen(dc.vendor)!=vlen || memcmp(dc.vendor,vend,vlen)) res_viol("C16","vendor-differs","vendor read back '%s' vs %ld bytes in packet",dc.vendor?dc.vendor:"(null)",vlen);
      if(vlen<=0) res_viol("C16","vendor-empty","%ld",vlen);
      { /* the library's vendor string, as written for a freshly initialised comment structure */
        static char libvendor[200]; static int have=0;
        if(!have){ vorbis_comment fc; ogg_packet fp; vorbis_comment_init(&fc); if(vorbis_commentheader_out(&fc,&fp)==0){ long l=fp.packet[7]|(fp.packet[8]<<8)|(fp.packet[9]<<16)|((long)fp.packet[10]<<24); if(l>0&&l<199){ memcpy(libvendor,fp.packet+11,l); libvendor[l]=0; have=1; } free(fp.packet); } vorbis_comment_clear(&fc); }
        if(have && dc.vendor && strcmp(dc.vendor,libvendor)) res_viol("C16","vendor-not-the-librarys","read back '%s', the library writes '%s' (source structure carried %s vendor)",dc.vendor,libvendor,foreign_vendor?"a foreign":"no"); }
      /* queries against the model, on the read-back structure (and on the source when it has no NULL entries) */
      int nq=a->thorough?80:50; long qmatch=0;
      for(int qi=0;qi<nq && same;qi++){
        char tag[40]; const char *t;
        if(rng_chance(&r,0.8)) t=tags[rng_below(&r,ntags)];
        else { int l=(int)rng_below(&r,6); for(int k=0;k<l;k++) tag[k]=(char)rng_range(&r,1,255); tag[l]=0; t=tag; }
        vorbis_comment *q = (!has_null && rng_chance(&r,0.3)) ? &vc : &dc;
        int mcount=0; for(int i=0;i<n;i++) if(!cm[i].isnull && model_match(cm[i].p,cm[i].len,t)) mcount++;
        int cnt=vorbis_comment_query_count(q,t); res_eval(1);
        if(cnt!=mcount){ res_viol("C16","query-count-differs","tag '%s': library %d, model %d",t,cnt,mcount); break; }
        qmatch+=mcount;
        int idx[5]={0,mcount-1,mcount,(int)rng_below(&r,mcount+2),-1};
        for(int z=0;z<5;z++){
          int want=idx[z]; char *got=vorbis_comment_query(q,t,want); res_eval(1);
          const unsigned char *exp=NULL; int seen=0;
          if(want>=0) for(int i=0;i<n;i++) if(!cm[i].isnull && model_match(cm[i].p,cm[i].len,t)){ if(seen==want){ exp=cm[i].p+strlen(t)+1; break; } seen++; }
          if((got==NULL)!=(exp==NULL)){ res_viol("C16","query-presence-differs","tag '%s' index %d: library %s, model %s",t,want,got?"hit":"NULL",exp?"hit":"NULL"); break; }
          if(got && strcmp(got,(const char*)exp)){ res_viol("C16","query-value-differs","tag '%s' index %d",t,want); break; }
        }
        /* count == number of successful queries */
        int succ=0; for(int k=0;k<mcount+2;k++) if(vorbis_comment_query(q,t,k)) succ++;
        if(succ!=cnt){ res_viol("C16","count-vs-successful-queries","tag '%s': count %d, %d queries succeed",t,cnt,succ); break; }
      }
      res_count("query_matches",qmatch);
      if(same && !res_nviol()){ /* the edit history: tags appended to the structure the DECODER filled in, written out again and read back */
        int k=(int)rng_range(&r,1,6); char addbuf[6][48];
        for(int j=0;j<k;j++){ snprintf(addbuf[j],sizeof addbuf[j],"EDIT%d=added %d of %d to %d",j,j,k,n);
          if(j&1){ char *eq=strchr(addbuf[j],'='); *eq=0; vorbis_comment_add_tag(&dc,addbuf[j],eq+1); *eq='='; } else vorbis_comment_add(&dc,addbuf[j]); }
        res_eval(1);
        int okk=(dc.comments==n+k);
        for(int i=0;i<n && okk;i++) if(dc.comment_lengths[i]!=cm[i].len || memcmp(dc.user_comments[i],cm[i].p,cm[i].len)) okk=0;
        for(int j=0;j<k && okk;j++) if(dc.comment_lengths[n+j]!=(int)strlen(addbuf[j]) || strcmp(dc.user_comments[n+j],addbuf[j])) okk=0;
        if(!okk) res_viol("C16","edited-list-differs","after appending %d tags to the read-back list of %d: count %d",k,n,dc.comments);
        else {
          ogg_packet ep; memset(&ep,0,sizeof ep);
          if(vorbis_commentheader_out(&dc,&ep)) res_viol("C16","commentheader-out-failed","on the edited read-back list");
          else { vorbis_info d2; vorbis_comment c2; vorbis_info_init(&d2); vorbis_comment_init(&c2); ep.packetno=1;
            int f0=vorbis_synthesis_headerin(&d2,&c2,&h[0]); int f1=f0?f0:vorbis_synthesis_headerin(&d2,&c2,&ep);
            if(f1) res_viol("C16","comment-header-rejected","edited list: headerin %d/%d",f0,f1);
            else { int ok2=(c2.comments==n+k); for(int i=0;i<n+k && ok2;i++) if(c2.comment_lengths[i]!=dc.comment_lengths[i] || memcmp(c2.user_comments[i],dc.user_comments[i],dc.comment_lengths[i])) ok2=0;
              if(!ok2) res_viol("C16","edited-list-differs","edited list of %d+%d read back as %d entries",n,k,c2.comments); else res_count("edited_lists_round_tripped",1); }
            vorbis_comment_clear(&c2); vorbis_info_clear(&d2); free(ep.packet); }
        }
      }
      if(same && !res_nviol()) res_bucket("n%s|%s|%s|%s|bytes%s",ncls==0?"0":ncls==1?"1":n<13?"2-12":n<201?"13-200":">200",use_explicit?"explicit":"cstr",has_null?"nullentry":"nonull",way?"commentheader_out":"headerout",totbytes<100?"<100":totbytes<10000?"<10k":">10k");
    }
    if(c16_libc_case_calls){ res_viol("C16","libc-case-mapping-consulted","%ld calls reached toupper/tolower/strcasecmp/ctype tables from library code",c16_libc_case_calls); c16_libc_case_calls=0; }
    vorbis_comment_clear(&dc); vorbis_info_clear(&di);
    if(h2alt.packet) free(h2alt.packet);   /* commentheader_out hands ownership to the caller (documented) */
  }
done:
  res_sample("%d comments, %ld bytes, explicit=%d null=%d writer=%s",n,totbytes,use_explicit,has_null,way?"commentheader_out":"headerout");
  if(enc_live) vorbis_dsp_clear(&vd);
  vorbis_info_clear(&vi);
  if(use_explicit){ for(int i=0;i<n;i++) free(vc.user_comments[i]); free(vc.user_comments); free(vc.comment_lengths); free(vc.vendor); memset(&vc,0,sizeof vc); }
  else vorbis_comment_clear(&vc);
  for(int i=0;i<n;i++) free(cm[i].p); free(cm);
  res_end();
}

int main(int argc,char **argv){
  drvargs_t a; if(drv_parse(argc,argv,&a)) return 2;
  const char *extra= argc>6?argv[6]:NULL;
  for(long i=a.first;i<a.first+a.count;i++){
    if(!strcmp(a.mode,"c04")) case_c04(&a,i);
    else if(!strcmp(a.mode,"c06")) case_c06(&a,i,extra);
    else if(!strcmp(a.mode,"c14")) case_c14(&a,i);
    else if(!strcmp(a.mode,"c14d")) case_c14d(&a,i);
    else if(!strcmp(a.mode,"c15")) case_c15(&a,i);
    else if(!strcmp(a.mode,"c16")) case_c16(&a,i);
    else { fprintf(stderr,"unknown mode %s\n",a.mode); return 2; }
  }
  return 0;
}
