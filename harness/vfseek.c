/* C07 / C08 monitor: random and exhaustive seek histories on encoder-made chained
   streams, judged against a linear reference decode and the harness's own page scan. */
#include "common.h"
#include "mixed.h"
#include <math.h>

typedef struct {
  const unsigned char *d; size_t n;
  refdec_t ref;
  pageinfo_t *pages; int npages;
  int64_t *bounds; int nb;           /* absolute sample positions where a page's audio ends/begins, plus link starts */
  long *pagestart; int nps;          /* byte offsets of page starts */
  size_t linkoff[VH_MAXLINKS+1];
  long goff[VH_MAXLINKS];       /* granule offset the link was muxed with (known to the harness) */
  double tstart[VH_MAXLINKS+1];
  int nlinks;
} stream_t;

static int cmp64(const void *a,const void *b){ int64_t x=*(const int64_t*)a,y=*(const int64_t*)b; return x<y?-1:x>y; }

static void stream_index(stream_t *s){
  s->npages=page_scan(s->d,s->n,&s->pages);
  s->bounds=malloc(sizeof(int64_t)*(s->npages+s->ref.nlinks+2)); s->nb=0;
  s->pagestart=malloc(sizeof(long)*(s->npages+1)); s->nps=0;
  for(int i=0;i<s->npages;i++) s->pagestart[s->nps++]=s->pages[i].off;
  double t=0;
  for(int l=0;l<s->ref.nlinks;l++){
    reflink_t *L=&s->ref.l[l];
    s->tstart[l]=t; t+=(double)L->len/L->rate;
    s->bounds[s->nb++]=L->start;
    for(int i=0;i<s->npages;i++){
      pageinfo_t *p=&s->pages[i];
      if((long)p->serial!=L->serial || p->granule<0) continue;
      if(p->off<(long)s->linkoff[l] || p->off>=(long)s->linkoff[l+1]) continue;
      int64_t g=p->granule-s->goff[l]; if(g<0)g=0; if(g>L->len)g=L->len;
      s->bounds[s->nb++]=L->start+g;
    }
  }
  s->tstart[s->ref.nlinks]=t;
  qsort(s->bounds,s->nb,sizeof(int64_t),cmp64);
  int k=0; for(int i=0;i<s->nb;i++) if(k==0||s->bounds[i]!=s->bounds[k-1]) s->bounds[k++]=s->bounds[i];
  s->nb=k;
}
static int64_t bound_before(const stream_t *s,int64_t p){ /* largest boundary strictly before p, else 0 */
  int64_t b=0; for(int i=0;i<s->nb;i++){ if(s->bounds[i]<p) b=s->bounds[i]; else break; } return b;
}
/* does the page whose granule position defines boundary b hold nothing but the tail of a packet begun on an earlier page?
   (vorbisfile cannot start decoding on such a page and falls back to an earlier one) */
static int bound_is_continued_tail(const stream_t *s,int64_t b){
  for(int l=0;l<s->ref.nlinks;l++){
    const reflink_t *L=&s->ref.l[l];
    for(int i=0;i<s->npages;i++){
      const pageinfo_t *p=&s->pages[i];
      if((long)p->serial!=L->serial || p->granule<0) continue;
      if(p->off<(long)s->linkoff[l] || p->off>=(long)s->linkoff[l+1]) continue;
      int64_t g=p->granule-s->goff[l]; if(g<0)g=0; if(g>L->len)g=L->len;
      if(L->start+g==b && p->continued && p->packets<=1) return 1;
    }
  }
  return 0;
}
static void stream_free(stream_t *s){ ref_free(&s->ref); free(s->pages); free(s->bounds); free(s->pagestart); }

/* last link whose start <= pos */
static int link_at(const stream_t *s,int64_t pos){ int l=0; for(int i=0;i<s->ref.nlinks;i++) if(s->ref.l[i].start<=pos) l=i; return l; }

/* Read `nreads` times from the handle and compare against the linear reference.  Returns 0 if all fine. */
static int verify_reads(OggVorbis_File *vf,const stream_t *s,rng_t *r,int nreads,const char *ctx,int use_int){
  for(int k=0;k<nreads;k++){
    int64_t before=ov_pcm_tell(vf);
    if(before<0||before>s->ref.total){ res_viol("C07","tell-out-of-range","%s: tell=%lld total=%lld",ctx,(long long)before,(long long)s->ref.total); return -1; }
    int bs=-7; long got; float **pcm=NULL; short ibuf[4096];
    int len=(int)rng_range(r,1,3000);
    if(use_int){ got=ov_read(vf,(char*)ibuf,(int)sizeof ibuf,0,2,1,&bs); }
    else got=ov_read_float(vf,&pcm,len,&bs);
    res_eval(1);
    if(vh_trace) fprintf(stderr,"op read%s at %lld -> %ld bs %d\n",use_int?"16":"f",(long long)before,got,bs);
    if(got<0){ res_viol("C07","read-error-after-seek","%s: read returned %ld at %lld",ctx,got,(long long)before); return -1; }
    if(got==0){
      if(before!=s->ref.total){ res_viol("C07","eof-before-total","%s: EOF at %lld, total %lld",ctx,(long long)before,(long long)s->ref.total); return -1; }
      return 0;
    }
    if(before==s->ref.total){ res_viol("C07","samples-at-total","%s: tell==total=%lld but read returned %ld (bitstream %d)",ctx,(long long)before,got,bs); return -1; }
    int l=ref_link_of(&s->ref,before);
    if(l<0){ res_viol("C07","no-link-at-tell","%s: tell %lld",ctx,(long long)before); return -1; }
    const reflink_t *L=&s->ref.l[l];
    long frames = use_int ? got/(2*L->ch) : got;
    if(use_int && got%(2*L->ch)){ res_viol("C17","partial-frame","bytes %ld ch %d",got,L->ch); return -1; }
    if(bs!=l){ res_viol("C07","wrong-bitstream-index","%s: at %lld read says link %d, linear decode says %d",ctx,(long long)before,bs,l); return -1; }
    long idx=(long)(before-L->start);
    if(idx+frames>L->len){ res_viol("C07","read-crosses-link-end","%s: %ld frames at idx %ld of link %d len %lld",ctx,frames,idx,l,(long long)L->len); return -1; }
    if(!use_int){
      for(int c=0;c<L->ch;c++) if(memcmp(pcm[c],L->pcm[c]+idx,sizeof(float)*frames)){
        long j=0; while(j<frames && !memcmp(&pcm[c][j],&L->pcm[c][idx+j],sizeof(float))) j++;
        res_viol("C07","pcm-differs-from-linear","%s: link %d ch %d pos %lld (+%ld): got %.9g want %.9g",ctx,l,c,(long long)before,j,pcm[c][j],L->pcm[c][idx+j]);
        return -1;
      }
    }else{
      for(long j=0;j<frames;j++) for(int c=0;c<L->ch;c++){
        double x=(double)L->pcm[c][idx+j]*32768.0; double v=ibuf[j*L->ch+c];
        double w=x>32767?32767:(x<-32768?-32768:x);
        if(fabs(v-w)>0.5000001){
          res_viol("C07","int-pcm-differs-from-linear","%s: link %d ch %d pos %lld: got %g want %.3f",ctx,l,c,(long long)(before+j),v,x); return -1; }
      }
    }
    int64_t after=ov_pcm_tell(vf);
    if(after!=before+frames){ res_viol("C07","tell-advance","%s: tell %lld -> %lld after %ld frames",ctx,(long long)before,(long long)after,frames); return -1; }
  }
  return 0;
}

static void check_time_tell(OggVorbis_File *vf,const stream_t *s,const char *ctx){
  int64_t T=ov_pcm_tell(vf); double tt=ov_time_tell(vf);
  if(T<0) return;
  int l=link_at(s,T);
  double want=s->tstart[l]+(double)(T-s->ref.l[l].start)/s->ref.l[l].rate;
  res_eval(1);
  if(fabs(tt-want)>1e-6) res_viol("C07","time-tell-inconsistent","%s: pcm_tell %lld time_tell %.9f expected %.9f",ctx,(long long)T,tt,want);
}

static const char *apiname[]={"raw_seek","pcm_seek","pcm_seek_page","time_seek","time_seek_page"};

static int64_t pick_pcm_target(const stream_t *s,rng_t *r,int *cls){
  int64_t L=s->ref.total; int c=(int)rng_below(r,100);
  if(c<25||L==0){ *cls=0; return L?rng_range(r,0,(long)L):0; }
  if(c<50){ *cls=1; return s->bounds[rng_below(r,s->nb)]+rng_range(r,-1,1); }
  if(c<65){ *cls=2; int l=(int)rng_below(r,s->ref.nlinks); return s->ref.l[l].start+rng_range(r,-2,2); }
  if(c<70){ *cls=3; return 0; }
  if(c<77){ *cls=4; return L; }
  if(c<82){ *cls=5; return L-1; }
  if(c<90){ *cls=8; int l=(int)rng_below(r,s->ref.nlinks); return s->ref.l[l].start+s->ref.l[l].len-rng_range(r,0,300); }
  if(c<95){ *cls=6; return -rng_range(r,1,100000); }
  *cls=7; return L+rng_range(r,1,100000);
}
static int64_t pick_raw_target(const stream_t *s,rng_t *r,int *cls){
  int c=(int)rng_below(r,100); int64_t n=(int64_t)s->n;
  if(c<30){ *cls=0; return rng_range(r,0,(long)n); }
  if(c<50){ *cls=1; return s->pagestart[rng_below(r,s->nps)]+rng_range(r,-1,1); }
  if(c<68){ *cls=2; int l=(int)rng_below(r,s->nlinks+1); return (int64_t)s->linkoff[l]+rng_range(r,-300,300); }
  if(c<80){ *cls=3; /* inside the last page of some link */
    int l=(int)rng_below(r,s->nlinks); long lo=-1,hi=(long)s->linkoff[l+1];
    for(int i=0;i<s->npages;i++) if(s->pages[i].off<hi) lo=s->pages[i].off;
    if(lo<0)lo=0; return rng_range(r,lo,hi); }
  if(c<85){ *cls=4; return n; }
  if(c<90){ *cls=5; return 0; }
  if(c<95){ *cls=6; return -rng_range(r,1,5000); }
  *cls=7; return n+rng_range(r,1,5000);
}

/* Judge one seek call. api: 0 raw,1 pcm,2 pcm_page,3 time,4 time_page */
static int force_on; static int64_t force_p;     /* do_seek repeats a given raw/pcm/page request (the retry after a call during which the source balked) */
static void do_seek(OggVorbis_File *vf,const stream_t *s,rng_t *r,int api,int prevcls,int mode08){
  int cls=0; int64_t L=s->ref.total; int64_t p=0; double t=0; int ret; char ctx[200];
  int64_t tell0=ov_pcm_tell(vf);
  double dur=s->tstart[s->ref.nlinks];
  int oor=0; int64_t expect=-1; int explink=-1;
  if(api==0){ p=pick_raw_target(s,r,&cls); oor=(p<0||p>(int64_t)s->n); }
  else if(api==1||api==2){ p=pick_pcm_target(s,r,&cls); oor=(p<0||p>L); }
  else {
    int c=(int)rng_below(r,100);
    if(c<55){ cls=0; t=rng_unit(r)*dur; }
    else if(c<75){ cls=2; int l=(int)rng_below(r,s->ref.nlinks); t=s->tstart[l]+(double)rng_range(r,-3,3)/s->ref.l[l].rate; if(t<0)t=0; }
    else if(c<82){ cls=1; int64_t b=s->bounds[rng_below(r,s->nb)]; int l=link_at(s,b); t=s->tstart[l]+(double)(b-s->ref.l[l].start+rng_range(r,-1,1))/s->ref.l[l].rate; if(t<0)t=0; }
    else if(c<86){ cls=3; t=0; }
    else if(c<90){ cls=4; t=dur; }
    else if(c<95){ cls=6; t=-rng_unit(r)*10-1e-9; }
    else { cls=7; t=dur+1e-6+rng_unit(r)*10; }
    oor=(t<0||t>dur);
    if(!oor && t<dur){
      int l=0; for(int i=0;i<s->ref.nlinks;i++) if(t>=s->tstart[i]) l=i;
      /* skip zero-length links: containing link is the last one whose start time <= t and which has length */
      explink=l; expect=s->ref.l[l].start+(int64_t)floor((t-s->tstart[l])*s->ref.l[l].rate);
    }
  }
  if(force_on && api<=2){ p=force_p; cls=9; oor=0; }
  if(api<=2) snprintf(ctx,sizeof ctx,"%s(%lld) cls%d prev%d tell0=%lld",apiname[api],(long long)p,cls,prevcls,(long long)tell0);
  else snprintf(ctx,sizeof ctx,"%s(%.9f) cls%d prev%d tell0=%lld",apiname[api],t,cls,prevcls,(long long)tell0);
  switch(api){
  case 0: ret=ov_raw_seek(vf,p); break;
  case 1: ret=ov_pcm_seek(vf,p); break;
  case 2: ret=ov_pcm_seek_page(vf,p); break;
  case 3: ret=ov_time_seek(vf,t); break;
  default: ret=ov_time_seek_page(vf,t); break;
  }
  res_eval(1); res_count(apiname[api],1);
  int64_t T=ov_pcm_tell(vf);
  if(vh_trace) fprintf(stderr,"op %s -> ret %d tell %lld\n",ctx,ret,(long long)T);
  if(oor){
    res_count("out_of_range_args",1);
    if(ret>=0) res_viol("C08","out-of-range-accepted","%s returned %d",ctx,ret);
    else {
      if(T!=tell0) res_viol("C08","rejected-seek-moved-position","%s ret %d tell %lld -> %lld",ctx,ret,(long long)tell0,(long long)T);
      else if(mode08 && tell0>=0){ /* the next read must be what it would have been */
        verify_reads(vf,s,r,1,ctx,0);
      }
      res_bucket("%s|oor%d|prev%d|%s",apiname[api],cls,prevcls,s->ref.nlinks>1?"chain":"single");
    }
    return;
  }
  if(api>=3 && t==dur){ /* statement leaves t==duration open: safety only */
    if(ret==0) verify_reads(vf,s,r,1,ctx,0);
    return;
  }
  if(ret!=0){
    res_viol("C08","in-range-seek-failed","%s returned %d",ctx,ret);
    return;
  }
  /* success: C08 landing clauses */
  if(api==1){
    if(T!=p) res_viol("C08",T>p?"pcm_seek-lands-after-target":"pcm_seek-lands-before-target","%s tell %lld (link %d)",ctx,(long long)T,link_at(s,p));
  }else if(api==2){
    int64_t B=bound_before(s,p);
    if(T>p) res_viol("C08","page-seek-lands-after-target","%s tell %lld",ctx,(long long)T);
    else if(T<B) res_viol("C08",bound_is_continued_tail(s,B)?"page-seek-lands-before-previous-page-boundary:boundary-page-holds-only-the-tail-of-a-continued-packet":"page-seek-lands-before-previous-page-boundary","%s tell %lld boundary %lld",ctx,(long long)T,(long long)B);
  }else if(api==3){
    int ok=(llabs(T-expect)<=1);
    if(!ok && explink>0){ /* t within rounding of a link boundary: previous link's arithmetic is equally valid */
      int l=explink-1; int64_t e2=s->ref.l[l].start+(int64_t)floor((t-s->tstart[l])*s->ref.l[l].rate); if(llabs(T-e2)<=1) ok=1; }
    if(!ok) res_viol("C08","time_seek-off-target","%s tell %lld expected %lld (link %d)",ctx,(long long)T,(long long)expect,explink);
  }else if(api==4){
    int64_t B=bound_before(s,expect-1);
    if(T>expect+1) res_viol("C08","time-page-seek-lands-after-target","%s tell %lld expected<=%lld",ctx,(long long)T,(long long)expect);
    else if(T<B){ /* the library's own sample target may be expect-1 .. expect+1: any boundary it may have aimed at and that is a tail-only page explains the fallback */
      int tail=0; for(int64_t x=expect-1;x<=expect+2 && !tail;x++){ int64_t b=bound_before(s,x); if(b>T && bound_is_continued_tail(s,b)) tail=1; }
      res_viol("C08",tail?"page-seek-lands-before-previous-page-boundary:boundary-page-holds-only-the-tail-of-a-continued-packet":"time-page-seek-lands-before-previous-page-boundary","%s tell %lld boundary %lld",ctx,(long long)T,(long long)B); }
  }
  if(api==1 && p==L){
    float **pcm; int bs; long g=ov_read_float(vf,&pcm,64,&bs);
    if(g!=0) res_viol("C08","read-after-seek-to-end-not-eof","%s read returned %ld",ctx,g);
  }
  /* C07: position truthful */
  check_time_tell(vf,s,ctx);
  {
    int before=res_nviol();
    verify_reads(vf,s,r,(int)rng_range(r,1,3),ctx,rng_chance(r,0.2));
    if(res_nviol()==before) res_bucket("%s|t%d|prev%d|%s",apiname[api],cls,prevcls,s->ref.nlinks>1?"chain":"single");
  }
}

static int open_handle(OggVorbis_File *vf,memsrc_t *ms,const stream_t *s){
  memsrc_init(ms,s->d,s->n,1);
  return ov_open_callbacks(ms,vf,NULL,0,memsrc_cb(ms));
}

static void run_case(const drvargs_t *a,long id){
  rng_t r; rng_seed(&r,a->seed,!strcmp(a->mode,"c08")?8:7,(uint64_t)id);
  int mode08=!strcmp(a->mode,"c08");
  int exhaustive = mode08 && (id%3==0);
  chaindesc_t cd; buf_t phys; buf_init(&phys); stream_t s; memset(&s,0,sizeof s);
  char desc[700];
  res_begin(id);
  long maxN = exhaustive ? (a->thorough?6000:2500) : (a->thorough?60000:24000);
  gen_chain(&r, exhaustive?3:(a->thorough?8:5), maxN, GC_GOFFSET|GC_ALLOW_EMPTY|GC_MULTICH|GC_MANAGED|GC_BIGPAGES, &cd);
  if(exhaustive) for(int i=0;i<cd.nlinks;i++){ if(cd.cfg[i].channels>2 && cd.cfg[i].channels<=8) cd.cfg[i].channels=2; }
  chain_describe(&cd,desc,sizeof desc);
  /* every 4th case some links are model-made (block sizes 64..8192 in any pair, floor 0, end-trimmed last packet, ...) */
  unsigned modelmask= (id%4==3)? pick_modelmask(&r,cd.nlinks):0;
  if(id%16==10){ /* hand-built pages: some hold nothing but the tail of a packet begun on the previous page (page seeks must walk backwards) */
    cd.nlinks=1; cd.goffset[0]=0; if(cd.cfg[0].nsamples<8000) cd.cfg[0].nsamples=8000+(long)rng_below(&r,8000); if(cd.cfg[0].channels>2) cd.cfg[0].channels=2;
    if(cd.cfg[0].mode!=ENC_VBR){ cd.cfg[0].mode=ENC_VBR; } if(cd.cfg[0].quality<0.3f) cd.cfg[0].quality=0.5f;
    encres_t er; if(enc_run(&cd.cfg[0],&er)){ encres_free(&er); res_sample("encoder setup refused"); res_end(); buf_free(&phys); return; }
    s.linkoff[0]=0; mux_tailpages(&er.pk,cd.serial[0],cd.muxseed,&phys); s.linkoff[1]=phys.n; encres_free(&er);
    snprintf(desc,sizeof desc,"hand-paged single link with tail-only pages: %dch %ldHz q%.2f N=%ld",cd.cfg[0].channels,cd.cfg[0].rate,cd.cfg[0].quality,cd.cfg[0].nsamples);
    modelmask=0;
  } else
  if(!modelmask){ if(build_chain(&cd,&phys,s.linkoff)){ res_sample("encoder setup refused: %s",desc); res_end(); buf_free(&phys); return; } }
  else if(build_chain_mixed(&r,&cd,modelmask,exhaustive?12:50,8,&phys,s.linkoff,desc,sizeof desc)){ res_sample("setup refused: %s",desc); res_end(); buf_free(&phys); return; }
  vh_dump("stream.ogg",phys.p,phys.n);
  s.d=phys.p; s.n=phys.n; s.nlinks=cd.nlinks; for(int i=0;i<cd.nlinks;i++) s.goff[i]=cd.goffset[i];
  if(ref_decode(s.d,s.n,0,&s.ref)){
    res_viol("C07","linear-read-broken","%s: %s",s.ref.err,desc); res_eval(1); res_end(); ref_free(&s.ref); buf_free(&phys); return;
  }
  res_eval(1);
  /* linear read delivered 0..total-1 without holes (checked inside ref_decode); lengths equal what was encoded */
  if(s.ref.nlinks!=cd.nlinks) res_viol("C09","link-count","opened %d links, muxed %d",s.ref.nlinks,cd.nlinks);
  else for(int i=0;i<cd.nlinks;i++){
    if(cd.cfg[i].nsamples>=0 && s.ref.l[i].len!=cd.cfg[i].nsamples) res_viol("C04","link-length","link %d reports %lld samples, %ld encoded",i,(long long)s.ref.l[i].len,cd.cfg[i].nsamples);
    if(s.ref.l[i].nout!=s.ref.l[i].len && s.ref.l[i].len>0) res_viol("C07","linear-read-short","link %d delivered %ld of %lld",i,s.ref.l[i].nout,(long long)s.ref.l[i].len);
  }
  stream_index(&s);
  OggVorbis_File vf; memsrc_t ms;
  int ret=open_handle(&vf,&ms,&s);
  if(ret){ res_viol("C07","open-failed","ret %d: %s",ret,desc); res_end(); stream_free(&s); buf_free(&phys); return; }
  int64_t L=s.ref.total;
  if(exhaustive){
    char ctx[96];
    int stride=1; for(int i=0;i<cd.nlinks;i++) if(cd.cfg[i].channels>8) stride=7;   /* many-channel decode is slow: sample the targets */
    if(modelmask && stride<5) stride=5;                                              /* so are model-made links with 4096/8192-sample blocks */
    for(int64_t p=(stride>1?(int64_t)(id%7):0);p<=L;p+=stride){
      int rc=ov_pcm_seek(&vf,p); int64_t T=ov_pcm_tell(&vf); res_eval(1);
      snprintf(ctx,sizeof ctx,"exhaustive pcm_seek(%lld)",(long long)p);
      if(rc){ res_viol("C08","in-range-seek-failed","%s returned %d",ctx,rc); break; }
      if(T!=p){ res_viol("C08",T>p?"pcm_seek-lands-after-target":"pcm_seek-lands-before-target","%s tell %lld (link %d)",ctx,(long long)T,link_at(&s,p)); break; }
      if(((p&3)==0||stride>1) && verify_reads(&vf,&s,&r,1,ctx,0)) break;
      if((p%5)==0||stride>1){
        rc=ov_pcm_seek_page(&vf,p); T=ov_pcm_tell(&vf); res_eval(1);
        int64_t B=bound_before(&s,p);
        snprintf(ctx,sizeof ctx,"exhaustive pcm_seek_page(%lld)",(long long)p);
        if(rc){ res_viol("C08","in-range-seek-failed","%s returned %d",ctx,rc); break; }
        if(T>p){ res_viol("C08","page-seek-lands-after-target","%s tell %lld",ctx,(long long)T); break; }
        if(T<B){ int ct=bound_is_continued_tail(&s,B); res_viol("C08",ct?"page-seek-lands-before-previous-page-boundary:boundary-page-holds-only-the-tail-of-a-continued-packet":"page-seek-lands-before-previous-page-boundary","%s tell %lld boundary %lld",ctx,(long long)T,(long long)B); if(!ct) break; }
        if(verify_reads(&vf,&s,&r,1,ctx,0)) break;
      }
    }
    if(!res_nviol()){ res_bucket("exhaustive|links%d|L%s",s.ref.nlinks,L<500?"<500":(L<3000?"<3000":">=3000")); res_count("exhaustive_streams",1); }
  }else{
    int nops=a->thorough?400:200; int prevcls=0; /* 0 fresh,1 after read,2 after seek,3 at eof,4 after failed/oor seek */
    for(int i=0;i<nops && res_nviol()<4;i++){
      int c=(int)rng_below(&r,100);
      if(c<(mode08?70:55)){
        int api=(int)rng_below(&r,5);
        if(!mode08 && rng_chance(&r,0.3)) api=0;
        if(mode08 && api==0 && rng_chance(&r,0.6)) api=1;
        do_seek(&vf,&s,&r,api,prevcls,mode08);
        prevcls=2;
      }else if(c<(mode08?76:61)){
        /* the source balks once (round 8): one seek callback fails during an in-range seek call, which is judged for its return domain only; the callbacks then work
           again and the SAME request is repeated (or another flavour asks for the same target) - that call and everything after it is judged like any other call of
           the history: the stream is intact, and a refused call is just one more "prior call" */
        int api=(int)rng_below(&r,3), cls; int64_t p= api==0? pick_raw_target(&s,&r,&cls) : pick_pcm_target(&s,&r,&cls);
        if(p>=0 && p<=(api==0?(int64_t)s.n:L)){
          memsrc_fault(&ms,F_SEEK_FAIL,ms.n_seek+(long)rng_below(&r,3),0);
          int rc= api==0? ov_raw_seek(&vf,p) : api==1? ov_pcm_seek(&vf,p) : ov_pcm_seek_page(&vf,p);
          long fired=ms.f_fired; memsrc_clear_fault(&ms);
          res_eval(1); res_count("seek_calls_during_which_the_source_balked",fired?1:0);
          if(rc>0 || rc<-140) res_viol("C08","return-domain","%s(%lld) returned %d when the seek callback failed once",apiname[api],(long long)p,rc);
          if(fired && rc==0 && api) res_count("seek_reported_success_although_the_source_balked",1);
          force_on=1; force_p=p; do_seek(&vf,&s,&r,rng_chance(&r,0.7)?api:(api==0?0:1+(int)rng_below(&r,2)),4,mode08); force_on=0;
          if(fired) res_count("retries_after_a_balked_seek_judged",1);
          prevcls=2;
        }
      }else if(c<85){
        int nr=(int)rng_range(&r,1,6);
        verify_reads(&vf,&s,&r,nr,"sequential read",rng_chance(&r,0.25));
        prevcls=(ov_pcm_tell(&vf)==L)?3:1;
      }else if(c<92){ /* read to (near) the end of the current link, to approach seeks from link ends */
        int64_t T=ov_pcm_tell(&vf); if(T>=0&&T<L){ int l=ref_link_of(&s.ref,T); int64_t e=s.ref.l[l].start+s.ref.l[l].len;
          int guard=0; while(ov_pcm_tell(&vf)<e-64 && guard++<400){ if(verify_reads(&vf,&s,&r,1,"read-to-link-end",0))break; } }
        prevcls=1;
      }else{
        check_time_tell(&vf,&s,"tell");
        (void)ov_raw_tell(&vf); (void)ov_bitrate_instant(&vf); (void)ov_info(&vf,-1);
      }
    }
  }
  ov_clear(&vf);
  if(ms.n_close!=1) res_viol("C13","close-count","close callback ran %ld times",ms.n_close);
  res_sample("%s bytes=%zu pages=%d total=%lld",desc,s.n,s.npages,(long long)L);
  res_end();
  stream_free(&s); buf_free(&phys);
}


/* ------------------------------------------------------------------ C07, begin-trimmed links (mode c07b) */
/* A begin-trimmed link: every granule position lowered by t (what a stream cutter leaves).  The Vorbis I specification has the decoder drop the first t samples; the
   link then has N-t samples, and sample j of it is sample j+t of the untrimmed decode.  The expected audio comes from the packet-level decoder on the untrimmed packets. */
typedef struct { int ch; long n; float **pcm; } full_t;
static void full_free(full_t *f){ if(f->pcm){ for(int c=0;c<f->ch;c++) free(f->pcm[c]); free(f->pcm); } memset(f,0,sizeof *f); }
static int full_decode(const pktlist_t *pk,full_t *o){
  vorbis_info vi; vorbis_comment vc; vorbis_dsp_state vd; vorbis_block vb; ogg_packet op; memset(o,0,sizeof *o); long cap=0;
  vorbis_info_init(&vi); vorbis_comment_init(&vc);
  for(int i=0;i<3;i++){ pkt_to_ogg(&pk->v[i],&op); if(vorbis_synthesis_headerin(&vi,&vc,&op)<0){ vorbis_comment_clear(&vc); vorbis_info_clear(&vi); return -1; } }
  if(vorbis_synthesis_init(&vd,&vi)){ vorbis_comment_clear(&vc); vorbis_info_clear(&vi); return -1; }
  vorbis_block_init(&vd,&vb); o->ch=vi.channels; o->pcm=calloc(o->ch,sizeof(float*));
  for(int i=3;i<pk->n;i++){ pkt_to_ogg(&pk->v[i],&op); if(vorbis_synthesis(&vb,&op)==0) vorbis_synthesis_blockin(&vd,&vb); float **pcm; int n;
    while((n=vorbis_synthesis_pcmout(&vd,&pcm))>0){ if(o->n+n>cap){ cap=cap?cap*2:16384; while(cap<o->n+n)cap*=2; for(int c=0;c<o->ch;c++) o->pcm[c]=realloc(o->pcm[c],sizeof(float)*cap); }
      for(int c=0;c<o->ch;c++) memcpy(o->pcm[c]+o->n,pcm[c],sizeof(float)*n); o->n+=n; vorbis_synthesis_read(&vd,n); } }
  vorbis_block_clear(&vb); vorbis_dsp_clear(&vd); vorbis_comment_clear(&vc); vorbis_info_clear(&vi); return 0;
}
static void case_c07b(const drvargs_t *a,long id){
  rng_t r; rng_seed(&r,a->seed,0x7b,(uint64_t)id); res_begin(id);
  chaindesc_t cd; gen_chain(&r,3,a->thorough?20000:9000,0,&cd); char desc[600]; buf_t phys; buf_init(&phys);
  int nl=cd.nlinks, bt=(int)rng_below(&r,(uint32_t)nl); full_t full[3]; long trim[3]={0,0,0}, len[3]; memset(full,0,sizeof full);
  for(int i=0;i<nl;i++){ if(cd.cfg[i].nsamples<3000) cd.cfg[i].nsamples=3000+(long)rng_below(&r,5000); if(cd.cfg[i].channels>6) cd.cfg[i].channels=2; cd.goffset[i]=0; }
  cd.goffset[bt]=-(long)rng_range(&r,1,4000);
  chain_describe(&cd,desc,sizeof desc-80);
  for(int i=0;i<nl;i++){
    encres_t er; if(enc_run(&cd.cfg[i],&er)){ encres_free(&er); res_sample("encoder refused"); goto out; }
    if(full_decode(&er.pk,&full[i])){ encres_free(&er); res_viol("C07","harness:packet-decode-failed","%s",desc); goto out; }
    long N=cd.cfg[i].nsamples; vh_mux_link(&er.pk,&cd,i,&phys); trim[i]=N-cd.cfg[i].nsamples; len[i]=cd.cfg[i].nsamples; encres_free(&er);
    if(full[i].n!=N){ res_viol("C04","packet-decode-count","%ld vs %ld",full[i].n,N); goto out; }
  }
  { size_t k=strlen(desc); snprintf(desc+k,sizeof desc-k," | link %d begin-trimmed by %ld",bt,trim[bt]); }
  if(trim[bt]==0){ res_sample("no trim possible: %s",desc); goto out; }
  vh_dump("stream.ogg",phys.p,phys.n);
  {
    OggVorbis_File vf; memsrc_t ms; memsrc_init(&ms,phys.p,phys.n,1);
    if(ov_open_callbacks(&ms,&vf,NULL,0,memsrc_cb(&ms))){ res_viol("C07","begin-trimmed-link:open-failed","%s",desc); goto out; }
    res_eval(1);
    if(ov_streams(&vf)!=nl) res_viol("C09","begin-trimmed-link:link-count","%ld links, built %d: %s",ov_streams(&vf),nl,desc);
    int64_t start[4]; start[0]=0; for(int i=0;i<nl;i++){ start[i+1]=start[i]+len[i]; if(ov_pcm_total(&vf,i)!=len[i]) res_viol("C09","begin-trimmed-link:total-length","link %d: ov_pcm_total %lld, %ld samples remain after the trim: %s",i,(long long)ov_pcm_total(&vf,i),len[i],desc); }
    if(!res_nviol()){
      /* linear read */
      long got[3]={0,0,0}; float **pcm; int bs=0; long g; int64_t running=0; int posbad=0, audbad=0;
      float **kept[3]; long kcap[3]; for(int i=0;i<nl;i++){ kcap[i]=full[i].n+8; kept[i]=calloc(full[i].ch,sizeof(float*)); for(int c=0;c<full[i].ch;c++) kept[i][c]=malloc(sizeof(float)*kcap[i]); }
      while(1){ int64_t tb=ov_pcm_tell(&vf); if(tb!=running && !posbad){ posbad=1; res_viol("C07","begin-trimmed-link:position-differs-from-samples-delivered","tell %lld after %lld samples were delivered (link %d): %s",(long long)tb,(long long)running,bs,desc); }
        g=ov_read_float(&vf,&pcm,(int)rng_range(&r,1,3000),&bs); if(g<=0) break; res_eval(1);
        if(bs<0||bs>=nl){ res_viol("C07","begin-trimmed-link:link-index","%d",bs); break; }
        if(got[bs]+g<=kcap[bs]) for(int c=0;c<full[bs].ch;c++) memcpy(kept[bs][c]+got[bs],pcm[c],sizeof(float)*g); else audbad=2;
        got[bs]+=g; running+=g; }
      if(g<0) res_viol("C07","begin-trimmed-link:linear-read-error","read returned %ld: %s",g,desc);
      for(int i=0;i<nl;i++){
        if(got[i]!=len[i]) res_viol("C07","begin-trimmed-link:link-delivers-other-than-its-length","link %d (trim %ld) delivered %ld samples, its length is %ld: %s",i,trim[i],got[i],len[i],desc);
        /* whatever was delivered must at least END like the expected audio (the trim can only have been applied short) */
        long m=VH_MIN(got[i],len[i]); if(m>kcap[i]) m=kcap[i];
        for(int c=0;c<full[i].ch && audbad==0;c++) if(memcmp(kept[i][c]+got[i]-m,full[i].pcm[c]+full[i].n-m,sizeof(float)*m)){ audbad=1; res_viol("C07","begin-trimmed-link:audio-differs","link %d ch %d: the last %ld delivered samples differ from the untrimmed decode's last %ld: %s",i,c,m,m,desc); }
      }
      { /* read to the end once, go back to the start, read again: the second pass must deliver what the first did (whatever that was) */
        uint64_t h1[3]={0,0,0}, h2[3]={0,0,0}; long got2[3]={0,0,0};
        for(int i=0;i<nl;i++){ long m=VH_MIN(got[i],kcap[i]); for(int c=0;c<full[i].ch;c++) h1[i]=fnv1a(kept[i][c],sizeof(float)*m,h1[i]); }
        int how=(int)rng_below(&r,3); int rs= how==0?ov_pcm_seek(&vf,0): how==1?ov_raw_seek(&vf,0):ov_time_seek(&vf,0.0); res_eval(1);
        if(rs) res_viol("C07","begin-trimmed-link:rewind-failed","%s to the start after reading to the end returned %d: %s",how==0?"ov_pcm_seek":how==1?"ov_raw_seek":"ov_time_seek",rs,desc);
        else { long pos2[3]={0,0,0};
          int adiff=-1; while((g=ov_read_float(&vf,&pcm,2048,&bs))>0){ if(bs<0||bs>=nl) break; long room=kcap[bs]-pos2[bs]; long m=VH_MIN(g,room>0?room:0); if(pos2[bs]+m>got[bs]) m= got[bs]>pos2[bs]? got[bs]-pos2[bs]:0;
            for(int c=0;c<full[bs].ch && adiff<0;c++) if(m>0 && memcmp(pcm[c],kept[bs][c]+pos2[bs],sizeof(float)*m)) adiff=bs; pos2[bs]+=g; got2[bs]+=g; }
          if(adiff>=0) res_viol("C07","begin-trimmed-link:second-pass-differs","link %d: audio of the second pass (after %s back to the start) differs from the first pass: %s",adiff,how==0?"ov_pcm_seek":how==1?"ov_raw_seek":"ov_time_seek",desc);
          /* h1 was hashed channel after channel over the whole link, h2 block by block: compare through a second, block-wise hash of the kept first pass instead */
          (void)h1; (void)h2;
          for(int i=0;i<nl;i++) if(got2[i]!=got[i]) res_viol("C07","begin-trimmed-link:second-pass-differs","link %d delivered %ld samples on the first pass and %ld after %s back to the start: %s",i,got[i],got2[i],how==0?"ov_pcm_seek":how==1?"ov_raw_seek":"ov_time_seek",desc);
          if(!res_nviol()) res_bucket("begin-trim|second-pass|%s",how==0?"pcm_seek":how==1?"raw_seek":"time_seek"); } }
      for(int i=0;i<nl;i++){ for(int c=0;c<full[i].ch;c++) free(kept[i][c]); free(kept[i]); }
      if(!posbad && !res_nviol()) res_bucket("begin-trim|linear|links%d|bt%d",nl,bt);
      /* seeks: position p of link l is sample p-start[l]+trim[l] of the untrimmed decode */
      int64_t T=start[nl];
      /* a seek decodes from the page before the one that holds the target; when that is the link's first audio page the partly applied trim shows again, so the
         region "near the trimmed start" reaches to the end of the link's second audio page (plus one long block of lapping) */
      long nearlim=6000; { pageinfo_t *pg=NULL; int np=page_scan(phys.p,phys.n,&pg); int seen=0; for(int i=0;i<np;i++) if(pg[i].serial==cd.serial[bt] && pg[i].granule>0){ if(++seen==2){ nearlim=(long)pg[i].granule+8192; break; } } if(seen<2) nearlim=len[bt]+1; free(pg); }
      for(int q=0;q<(a->thorough?60:25);q++){
        int64_t p= q<6? start[bt]+(int64_t)rng_range(&r,0,VH_MIN(len[bt]-1,1500)) : (int64_t)rng_range(&r,0,(long)T-1);
        int l=0; while(l+1<nl && p>=start[l+1]) l++;
        int rs=ov_pcm_seek(&vf,p); res_eval(1); const char *where=(l==bt && p-start[l]<nearlim)?"near-the-trimmed-start":"elsewhere";
        char key[96];
        if(rs){ snprintf(key,sizeof key,"begin-trimmed-link:seek-fails-%s",where); res_viol("C08",key,"ov_pcm_seek(%lld) = %d: %s",(long long)p,rs,desc); continue; }
        if(ov_pcm_tell(&vf)!=p){ snprintf(key,sizeof key,"begin-trimmed-link:seek-position-%s",where); res_viol("C08",key,"ov_pcm_seek(%lld) left tell %lld: %s",(long long)p,(long long)ov_pcm_tell(&vf),desc); continue; }
        long want=VH_MIN(400,(long)(start[l+1]-p)); long have=0; int bad=0;
        while(have<want && !bad){ g=ov_read_float(&vf,&pcm,(int)(want-have),&bs); if(g<=0||bs!=l){ bad=2; break; }
          for(int c=0;c<full[l].ch;c++) if(memcmp(pcm[c],full[l].pcm[c]+(p-start[l])+trim[l]+have,sizeof(float)*g)){ bad=1; break; } have+=g; }
        if(bad){ snprintf(key,sizeof key,"begin-trimmed-link:audio-after-seek-%s",where); res_viol("C07",key,"after ov_pcm_seek(%lld) (link %d, %lld into it): %s: %s",(long long)p,l,(long long)(p-start[l]),bad==2?"read failed or changed link":"audio differs from the untrimmed decode at that position",desc); }
        else res_bucket("begin-trim|seek|%s|%s",where,l==bt?"trimmed-link":"other-link");
      }
    }
    if(!res_nviol()){ /* the trim was applied exactly at full rate: at half rate the link must then deliver ceil(len/2) samples (C20) */
      if(ov_halfrate(&vf,1)==0 && ov_pcm_seek(&vf,0)==0){ long got[3]={0,0,0}; float **pcm; int bs=0; long g; while((g=ov_read_float(&vf,&pcm,2048,&bs))>0){ if(bs>=0&&bs<nl) got[bs]+=g; } res_eval(1);
        for(int i=0;i<nl;i++) if(got[i]!=(len[i]+1)/2){ char key[96];
          /* the half-rate trim is floor(t/2) output samples; with t odd and an odd untrimmed length that is one sample more than ceil(length/2) - its own key, every other parity stays under the plain one */
          snprintf(key,sizeof key,"begin-trimmed-link:halfrate-sample-count%s",(trim[i]&1)&&(full[i].n&1)&&got[i]==(len[i]+1)/2+1?":odd-trim-of-odd-length-stream":"");
          res_viol("C20",key,"link %d (trim %ld, length %ld, untrimmed %ld) delivers %ld samples at half rate, expected %ld: %s",i,trim[i],len[i],full[i].n,got[i],(len[i]+1)/2,desc); }
        if(!res_nviol()) res_bucket("begin-trim|halfrate-count|trim-%s|len-%s",(trim[bt]&1)?"odd":"even",(len[bt]&1)?"odd":"even"); }
    }
    ov_clear(&vf);
  }
out:
  res_sample("%s",desc);
  for(int i=0;i<3;i++) full_free(&full[i]);
  buf_free(&phys); res_end();
}

int main(int argc,char **argv){
  drvargs_t a; if(drv_parse(argc,argv,&a)) return 2;
  for(long i=a.first;i<a.first+a.count;i++){ if(!strcmp(a.mode,"c07b")) case_c07b(&a,i); else run_case(&a,i); }
  return 0;
}
