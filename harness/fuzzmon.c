/* Coverage-guided stratum for C02/C03/C13 (thorough tier): libFuzzer drives the packet-level decoder and vorbisfile
   under ASan + the gating UBSan kinds + LeakSanitizer.  The input is NOT a raw Ogg file (page checksums would make
   every mutation a dropped page): it is a selector byte, a list of length-prefixed packets and an operation script;
   the harness frames the packets into checksummed pages itself, so mutations land in header fields, codebooks and
   audio packets.  With -DFZ_CORPUS the same file is a plain program that writes the seed corpus (encoder-made and
   model-made streams) in that format.
   Input:  [sel][packets: u16le len, bytes]... [0xFFFF][script bytes]
     sel bit0: 0 packet-level target, 1 vorbisfile target;  bit1: half rate;  bit2: trackonly (pkt) / two-link chain (vf);
     bits3-4: paging policy (vf);  bit5: unseekable source (vf);  bit6: granule positions from the packets' own sizes or none */
#include "common.h"
#include "spec.h"
#include <errno.h>

#define FZ_MAXPK 64

static void put16(buf_t *b,unsigned v){ unsigned char c[2]={(unsigned char)(v&255),(unsigned char)(v>>8)}; buf_add(b,c,2); }

#ifdef FZ_CORPUS
static void write_case(const char *dir,int idx,int sel,const pktlist_t *pk,rng_t *r){
  buf_t b; buf_init(&b); unsigned char s=(unsigned char)sel; buf_add(&b,&s,1);
  int n=pk->n>FZ_MAXPK?FZ_MAXPK:pk->n;
  for(int i=0;i<n;i++){ if(pk->v[i].bytes>=0xFFFF) continue; put16(&b,(unsigned)pk->v[i].bytes); buf_add(&b,pk->v[i].data,(size_t)pk->v[i].bytes); }
  put16(&b,0xFFFF);
  int nops=(int)rng_range(r,2,10); for(int i=0;i<nops*3;i++){ unsigned char c=(unsigned char)rng_below(r,256); buf_add(&b,&c,1); }
  char path[512]; snprintf(path,sizeof path,"%s/seed%04d",dir,idx); FILE *f=fopen(path,"wb"); if(!f){ perror(path); exit(2); }
  fwrite(b.p,1,b.n,f); fclose(f); buf_free(&b);
}
int main(int argc,char **argv){
  if(argc<4){ fprintf(stderr,"usage: %s <outdir> <seed> <count>\n",argv[0]); return 2; }
  const char *dir=argv[1]; uint64_t seed=strtoull(argv[2],0,10); int count=atoi(argv[3]); int idx=0;
  for(int i=0;i<count;i++){
    rng_t r; rng_seed(&r,seed,0xF7,(uint64_t)i);
    if(i%3==0){ /* the real encoder: short, low rate (small packets) */
      enccfg_t c; enccfg_default(&c); c.channels=1+(int)rng_below(&r,2); c.rate=(long[]){8000,11025,16000,22050,44100}[rng_below(&r,5)];
      c.quality=(float)(-0.1+0.1*rng_below(&r,8)); c.nsamples=(long)rng_range(&r,200,6000); c.sig=(int)rng_below(&r,SIG_NCLASSIC); c.sigseed=rng_next(&r);
      encres_t er; if(enc_run(&c,&er)){ encres_free(&er); continue; }
      write_case(dir,idx++,(int)rng_below(&r,128),&er.pk,&r); encres_free(&er);
    }else{       /* the specification model: every profile, small set-ups */
      sp_setup *S=sp_gen_setup(&r,(int)(i%SP_NPROFILES),(int)rng_below(&r,2)); if(!S) continue;
      pktlist_t pk; pktlist_init(&pk); sp_gen_stream(&r,S,(int)rng_range(&r,3,24),&pk,(int)rng_below(&r,4));
      write_case(dir,idx++,(int)rng_below(&r,128),&pk,&r); pktlist_free(&pk); sp_free_setup(S);
    }
  }
  printf("wrote %d seeds\n",idx); return 0;
}
#else

static void fz_fail(const char *what){ fprintf(stderr,"FZ-MONITOR: %s\n",what); fflush(stderr); abort(); }

static void target_pkt(int sel,pkt_t *pk,int npk,const unsigned char *sc,size_t nsc){
  vorbis_info vi; vorbis_comment vc; vorbis_dsp_state vd; vorbis_block vb; ogg_packet op; int i;
  vorbis_info_init(&vi); vorbis_comment_init(&vc);
  for(i=0;i<3 && i<npk;i++){ pkt_to_ogg(&pk[i],&op); op.b_o_s=(i==0); op.packetno=i;
    if(vorbis_synthesis_idheader(&op)!=(i==0 && pk[i].bytes>=7 && pk[i].data[0]==1 && !memcmp(pk[i].data+1,"vorbis",6))){ /* informational only */ }
    if(vorbis_synthesis_headerin(&vi,&vc,&op)) break; }
  if(i<3){ vorbis_comment_clear(&vc); vorbis_info_clear(&vi); return; }
  if(sel&2) vorbis_synthesis_halfrate(&vi,1);
  if(vorbis_synthesis_init(&vd,&vi)){ vorbis_comment_clear(&vc); vorbis_info_clear(&vi); return; }
  vorbis_block_init(&vd,&vb);
  long delivered=0; size_t si=0; int hs=vorbis_synthesis_halfrate_p(&vi);
  for(i=3;i<npk;i++){
    pkt_to_ogg(&pk[i],&op); op.packetno=i; op.b_o_s=0;
    unsigned char c= si<nsc? sc[si++]:0;
    if((c&15)==1) vorbis_synthesis_restart(&vd);
    long bsz=vorbis_packet_blocksize(&vi,&op);
    int r=(sel&4)? vorbis_synthesis_trackonly(&vb,&op):vorbis_synthesis(&vb,&op);
    if(r==0){ if(bsz<0) fz_fail("vorbis_synthesis accepted a packet vorbis_packet_blocksize rejects");
      if(vorbis_synthesis_blockin(&vd,&vb)==0){ float **pcm; int n;
        while((n=vorbis_synthesis_pcmout(&vd,&pcm))>0){
          if(n>(8192>>hs)) fz_fail("pcmout returned more than one long block");
          if(!(sel&4)) for(int ch=0;ch<vi.channels;ch++){ volatile float t=pcm[ch][0]; t=pcm[ch][n-1]; (void)t; }
          int take=((c>>4)&3)==1? (n+1)/2:n; vorbis_synthesis_read(&vd,take); delivered+=take; if(delivered>(1L<<24)) break; } } }
    if((c&15)==2){ float **pcm; vorbis_synthesis_pcmout(&vd,&pcm); }
  }
  vorbis_block_clear(&vb); vorbis_dsp_clear(&vd); vorbis_comment_clear(&vc); vorbis_info_clear(&vi);
}

static void target_vf(int sel,pkt_t *pk,int npk,const unsigned char *sc,size_t nsc){
  /* granule positions: by the packets' own block sizes when the headers parse */
  pktlist_t L; L.v=pk; L.n=npk; L.cap=npk;
  { vorbis_info vi; vorbis_comment vc; ogg_packet op; int i,ok=1; vorbis_info_init(&vi); vorbis_comment_init(&vc);
    for(i=0;i<3 && i<npk;i++){ pkt_to_ogg(&pk[i],&op); op.b_o_s=(i==0); if(vorbis_synthesis_headerin(&vi,&vc,&op)){ ok=0; break; } }
    ogg_int64_t g=0; long prev=0;
    for(i=0;i<npk;i++){ pk[i].b_o_s=(i==0); pk[i].e_o_s=(i==npk-1); pk[i].packetno=i; pk[i].granulepos= i<3?0:-1; }
    for(i=3;i<npk;i++){ long b=-1; if(ok && i>=3){ pkt_to_ogg(&pk[i],&op); b=vorbis_packet_blocksize(&vi,&op); }
      if(sel&64){ pk[i].granulepos=(ogg_int64_t)(i-3)*((sel>>3)&3? 64:1000000007LL); continue; }
      if(b>0){ if(prev) g+=(prev+b)/4; prev=b; } pk[i].granulepos=g; }
    vorbis_comment_clear(&vc); vorbis_info_clear(&vi); }
  buf_t phys; buf_init(&phys);
  int pol=(sel>>3)&3; mux_stream(&L,0x1000+(sel&7),pol,200+17*(sel&31),(uint64_t)sel,&phys);
  if(sel&4){ for(int i=0;i<npk;i++) if(i>=3 && pk[i].granulepos>0) pk[i].granulepos/=2; mux_stream(&L,0x2000+(sel&7),(pol+1)&3,300,(uint64_t)sel+1,&phys); }
  memsrc_t m; memsrc_init(&m,phys.p,phys.n,(sel&32)?0:1); OggVorbis_File vf; ov_callbacks cb=memsrc_cb(&m);
  int r=ov_open_callbacks(&m,&vf,NULL,0,cb);
  if(r==0){
    if(sel&2) ov_halfrate(&vf,1);
    int nl=ov_streams(&vf); ogg_int64_t tot=ov_pcm_total(&vf,-1), rawtot=ov_raw_total(&vf,-1); double ttot=ov_time_total(&vf,-1);
    if(nl<1) fz_fail("ov_streams < 1 on an open handle");
    static char out[8192]; int bs; size_t si=0; int steps=0;
    while(si+3<=nsc && steps<24){ unsigned op=sc[si]%10, a=sc[si+1], b=sc[si+2]; si+=3; steps++; unsigned ab=(a<<8)|b;
      switch(op){
        case 0: { long n=ov_read(&vf,out,(int)(1+ab%sizeof out),0,2,1,&bs); if(n>(long)(1+ab%sizeof out)) fz_fail("ov_read returned more than asked"); break; }
        case 1: { float **pcm; long n=ov_read_float(&vf,&pcm,(int)(1+ab%4096),&bs); if(n>0){ vorbis_info *vi=ov_info(&vf,-1); if(vi) for(int ch=0;ch<vi->channels;ch++){ volatile float t=pcm[ch][n-1]; (void)t; } } break; }
        case 2: if(tot>0){ int rr=ov_pcm_seek(&vf,(ogg_int64_t)((double)ab/65535.0*(double)tot)); if(rr==0 && ov_pcm_tell(&vf)<0) fz_fail("negative position after successful seek"); } else ov_pcm_seek(&vf,(ogg_int64_t)ab-100); break;
        case 3: if(tot>0) ov_pcm_seek_page(&vf,(ogg_int64_t)((double)ab/65535.0*(double)tot)); break;
        case 4: if(ttot>0) ov_time_seek(&vf,(double)ab/65535.0*ttot); else ov_time_seek(&vf,(double)ab-7.0); break;
        case 5: if(rawtot>0) ov_raw_seek(&vf,(ogg_int64_t)((double)ab/65535.0*(double)rawtot)); break;
        case 6: if(tot>0) ov_pcm_seek_lap(&vf,(ogg_int64_t)((double)ab/65535.0*(double)tot)); break;
        case 7: { for(int l=-1;l<=nl;l++){ ov_pcm_total(&vf,l); ov_time_total(&vf,l); ov_raw_total(&vf,l); ov_bitrate(&vf,l); ov_serialnumber(&vf,l); ov_info(&vf,l); ov_comment(&vf,l); }
                  ov_bitrate_instant(&vf); ov_pcm_tell(&vf); ov_time_tell(&vf); ov_raw_tell(&vf); ov_seekable(&vf); break; }
        case 8: if(ttot>0) ov_time_seek_page_lap(&vf,(double)ab/65535.0*ttot); break;
        case 9: ov_halfrate(&vf,(int)(a&1)); break;
      } }
    for(int k=0;k<64;k++){ long n=ov_read(&vf,out,sizeof out,0,2,1,&bs); if(n<=0 && n!=OV_HOLE) break; }
    ov_clear(&vf);
  }else{
    if(r>0 || r<-200) fz_fail("ov_open_callbacks returned something that is not 0 or an OV_* code");
    /* a failed open must have released everything (LeakSanitizer decides) and must not have closed a source it was not given a close for */
  }
  buf_free(&phys);
}

int LLVMFuzzerTestOneInput(const unsigned char *d,size_t n){
  if(n<4) return 0;
  int sel=d[0]; size_t p=1; pkt_t pk[FZ_MAXPK]; int npk=0; const unsigned char *sc=NULL; size_t nsc=0;
  unsigned char *copy=malloc(n); memcpy(copy,d,n);
  while(p+2<=n && npk<FZ_MAXPK){ unsigned len=copy[p]|(copy[p+1]<<8); p+=2; if(len==0xFFFF){ sc=copy+p; nsc=n-p; break; } if(len>n-p) len=(unsigned)(n-p);
    memset(&pk[npk],0,sizeof pk[npk]); pk[npk].data=copy+p; pk[npk].bytes=(long)len; pk[npk].granulepos=-1; npk++; p+=len; }
  { static int forced=-1; if(forced<0){ const char *t=getenv("FZ_TARGET"); forced= !t?2: !strcmp(t,"pkt")?0: !strcmp(t,"vf")?1:2; }
    if(forced==0) sel&=~1; else if(forced==1) sel|=1; }
  if(npk>=1){ if(sel&1) target_vf(sel,pk,npk,sc,nsc); else target_pkt(sel,pk,npk,sc,nsc); }
  free(copy); return 0;
}
#endif
