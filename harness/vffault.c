/* C03: vorbisfile on arbitrary physical streams x arbitrary call histories (sanitizers, return domain, budgets,
        failed-open post-conditions);
   C12: systematic callback-fault enumeration (every invocation index x fault kind x one-shot/persistent) with
        error-surfacing, no-hidden-close and recovery-vs-twin oracles. */
#define _GNU_SOURCE
#include "common.h"
#include "spec.h"
#include <math.h>
#include <errno.h>
#include <unistd.h>
#include <stdarg.h>

static int code_ok(long r){ return r>=0 || r==OV_FALSE || r==OV_EOF || r==OV_HOLE || (r<=OV_EREAD && r>=OV_ENOSEEK); }
static void ctx_mark(const char *fmt,...){ char t[200]; va_list ap; va_start(ap,fmt); vsnprintf(t,sizeof t,fmt,ap); va_end(ap); printf("@ctx %s\n",t); fflush(stdout); }
static int all_zero(const void *p,size_t n){ const unsigned char *c=p; for(size_t i=0;i<n;i++) if(c[i]) return 0; return 1; }

/* ------------------------------------------------------------------ stream construction */
/* a physical stream whose links are encoder-made and/or model-made (64..8192 blocks, floor 0, ...) */
static int force_modest_lie=0;   /* set by the phantom-tail stratum of case_c03: every granule lie of damage kind 8 is a modest overstatement on an EOS page */
static int build_mixed(rng_t *r,int thorough,buf_t *out,char *desc,size_t dn,int force_model){
  int phantom= force_model==2; if(phantom) force_model=0;   /* phantom-tail stratum: 2-4 links, links after the first mostly model-made and mostly undecodable */
  int nl= rng_chance(r,0.4)?1:(int)rng_range(r,2,thorough?6:4); if(phantom && nl<2) nl=(int)rng_range(r,2,4); size_t k=0; k+=snprintf(desc+k,dn-k,"links=%d",nl);
  for(int i=0;i<nl;i++){
    int model= force_model || rng_chance(r,0.3) || (phantom && i>0 && rng_chance(r,0.8));
    pktlist_t pk; pktlist_init(&pk); int havepk=0; encres_t er;
    if(model){
      sp_setup *S=sp_gen_setup(r,(int)rng_below(r,SP_NPROFILES),1); int np=(int)rng_range(r,2,30); int unb= rng_chance(r,(phantom&&i>0)?0.75:0.15);   /* some model links open but cannot be decoded (over-populated codebook): every read or seek into them is refused, again and again */
      if(((long)S->channels<<S->bs1exp)>(1L<<17)) np=VH_MIN(np,6);
      sp_gen_stream(r,S,np,&pk,(int)rng_below(r,2)); havepk=1;
      if(unb){ int bad=0; for(int b=0;b<S->nbooks && !bad;b++){ sp_book *B=&S->books[b]; if(B->ordered||B->used<3) continue; long e=B->used_idx[rng_below(r,(uint32_t)B->used)]; if(B->len[e]>1){ B->len[e]=1; bad=1; } }
        if(bad){ buf_t h0,h1,h2; buf_init(&h0); buf_init(&h1); buf_init(&h2); sp_write_headers(S,&h0,&h1,&h2); free(pk.v[2].data); pk.v[2].data=malloc(h2.n); memcpy(pk.v[2].data,h2.p,h2.n); pk.v[2].bytes=(long)h2.n; buf_free(&h0); buf_free(&h1); buf_free(&h2); } else unb=0; }
      if(k+60<dn) k+=snprintf(desc+k,dn-k," [model ch%d bs%d/%d %dpk%s]",S->channels,1<<S->bs0exp,1<<S->bs1exp,np,unb?" UNDECODABLE":"");
      sp_free_setup(S);
    } else {
      enccfg_t c; enccfg_default(&c); static const long rates[]={8000,11025,22050,44100,48000}; c.rate=rates[rng_below(r,5)]; c.channels=rng_chance(r,0.1)?(int)rng_range(r,3,6):(int)rng_range(r,1,2);
      c.quality=(float)(-0.1+1.1*rng_unit(r)); c.sig=(int)rng_below(r,SIG_NCLASSIC); c.sigseed=rng_next(r); c.nsamples=rng_chance(r,0.1)?(long)rng_range(r,0,300):(long)rng_range(r,300,thorough?20000:9000); c.chunk=CHUNK_RANDOM;
      if(enc_run(&c,&er)){ encres_free(&er); continue; }
      pk=er.pk; havepk=1;
      if(k+60<dn) k+=snprintf(desc+k,dn-k," [enc ch%d %ldHz N=%ld]",c.channels,c.rate,c.nsamples);
    }
    if(havepk){ int pol=(int)rng_below(r,PAGE_NKINDS); int ser=(int)rng_next(r); int fill=(int)rng_range(r,1,20000); uint64_t ms=rng_next(r);
      /* every 8th link: hand-built pages, the link's data starts with pages that only continue a packet whose first page is missing */
      if(!(rng_chance(r,0.125) && mux_headless_tail(&pk,ser,rng_chance(r,0.6)?0:(int)rng_below(r,3),out) && (k+40<dn? (k+=snprintf(desc+k,dn-k,"{data starts with continuation pages}")):1)))
        mux_stream(&pk,ser,pol,fill,ms,out);
      pktlist_free(&pk); }
  }
  return out->n>0?0:-1;
}
/* page-level damage */
static const char *dmgname[]={"intact","garbage-between-pages","duplicate-page","drop-page","swap-pages","foreign-stream","repeat-serial","clear-eos","lying-granule","granule-minus1",
  "truncate","byte-noise","byte-noise-crc-fixed","random-bytes","bos-midstream","pageno-jump","zero-span","cut-headers"};
#define DMG_KINDS 18
static void fix_crc(unsigned char *page,long len){
  ogg_page og; int nseg=page[26]; og.header=page; og.header_len=27+nseg; og.body=page+27+nseg; og.body_len=len-27-nseg; if(og.body_len<0) return;
  ogg_page_checksum_set(&og);
}
static void damage(rng_t *r,buf_t *s,int kind){
  pageinfo_t *pg=NULL; int np=page_scan(s->p,s->n,&pg); buf_t o; buf_init(&o);
  if(np<2 && kind>0 && kind!=10 && kind!=11 && kind!=13 && kind!=16 && kind!=17){ kind=11; }   /* page-level operators need pages */
  switch(kind){
  case 0: free(pg); return;
  case 1: for(int i=0;i<np;i++){ buf_add(&o,s->p+pg[i].off,pg[i].len); if(rng_chance(r,0.2)){ int g=(int)rng_range(r,1,300); for(int k=0;k<g;k++){ unsigned char c=(unsigned char)rng_next(r); if(rng_chance(r,0.02)){ buf_add(&o,"OggS",4); } buf_add(&o,&c,1); } } } break;
  case 2: { int d=(int)rng_below(r,(uint32_t)np); for(int i=0;i<np;i++){ buf_add(&o,s->p+pg[i].off,pg[i].len); if(i==d){ int t=(int)rng_range(r,1,3); for(int k=0;k<t;k++) buf_add(&o,s->p+pg[i].off,pg[i].len); } } } break;
  case 3: { int d=(int)rng_below(r,(uint32_t)np), m=(int)rng_range(r,1,3); for(int i=0;i<np;i++) if(i<d||i>=d+m) buf_add(&o,s->p+pg[i].off,pg[i].len); } break;
  case 4: { int a=(int)rng_below(r,(uint32_t)np), b=(int)rng_below(r,(uint32_t)np); for(int i=0;i<np;i++){ int j= i==a?b: i==b?a:i; buf_add(&o,s->p+pg[j].off,pg[j].len); } } break;
  case 5: { /* interleave pages of a foreign logical stream (other serial), with or without its BOS */
      enccfg_t c; enccfg_default(&c); c.nsamples=rng_range(r,500,6000); c.rate=22050; c.channels=1; c.sigseed=rng_next(r); encres_t er; buf_t f; buf_init(&f);
      if(enc_run(&c,&er)==0){ mux_stream(&er.pk,(int)rng_next(r),PAGE_FLUSH_EACH,0,1,&f); }
      encres_free(&er); pageinfo_t *fp=NULL; int nf=page_scan(f.p,f.n,&fp); int fi= rng_chance(r,0.5)?0:1;
      for(int i=0;i<np;i++){ buf_add(&o,s->p+pg[i].off,pg[i].len); if(fi<nf && rng_chance(r,0.4)){ buf_add(&o,f.p+fp[fi].off,fp[fi].len); fi++; } }
      free(fp); buf_free(&f); } break;
  case 6: { /* give a later link the serial number of an earlier one */
      int first=pg[0].serial; int tgt=-1; for(int i=0;i<np;i++) if(pg[i].serial!=first){ tgt=pg[i].serial; break; }
      buf_add(&o,s->p,s->n);
      if(tgt!=-1){ pageinfo_t *q=NULL; (void)q; for(int i=0;i<np;i++) if(pg[i].serial==tgt){ unsigned char *p=o.p+pg[i].off; p[14]=first&0xff; p[15]=(first>>8)&0xff; p[16]=(first>>16)&0xff; p[17]=(first>>24)&0xff; fix_crc(p,pg[i].len); } }
      else { /* single link: duplicate the whole link behind itself (same serial twice) */ buf_add(&o,s->p,s->n); } } break;
  case 7: buf_add(&o,s->p,s->n); for(int i=0;i<np;i++) if(pg[i].eos && rng_chance(r,0.7)){ o.p[pg[i].off+5]&=~4; fix_crc(o.p+pg[i].off,pg[i].len); } break;
  case 8: case 9: buf_add(&o,s->p,s->n); { int t=(int)rng_range(r,1,4); for(int k=0;k<t;k++){ int i=(int)rng_below(r,(uint32_t)np); ogg_int64_t g= kind==9?-1: rng_chance(r,0.3)?0: rng_chance(r,0.5)?(ogg_int64_t)rng_range(r,0,1000000):(ogg_int64_t)(rng_next(r)>>(rng_below(r,40)));
        if(rng_chance(r,0.2)) g=-g;
        if(kind==8 && (force_modest_lie || rng_chance(r,0.35))){ /* a modest lie: a link's last page claims a few hundred samples more than were coded (a phantom tail that seeks can be aimed at) */
          int ne=0; for(int q=0;q<np;q++) if(pg[q].eos) ne++; if(ne){ int w=(int)rng_below(r,(uint32_t)ne); for(int q=0;q<np;q++) if(pg[q].eos && w--==0){ i=q; g=pg[q].granule+(ogg_int64_t)rng_range(r,20,400); break; } } }
        unsigned char *p=o.p+pg[i].off; for(int b=0;b<8;b++) p[6+b]=(unsigned char)((uint64_t)g>>(8*b)); fix_crc(p,pg[i].len); } } break;
  case 10: buf_add(&o,s->p,(size_t)rng_range(r,0,(long)s->n)); break;
  case 11: case 12: buf_add(&o,s->p,s->n); { int t=(int)rng_range(r,1,12); for(int k=0;k<t&&o.n;k++){ size_t at=rng_below(r,(uint32_t)o.n); o.p[at]^=(unsigned char)(1<<rng_below(r,8)); }
      if(kind==12 && np){ pageinfo_t *q=NULL; int nq=page_scan(s->p,s->n,&q); for(int i=0;i<nq;i++) if(o.p[q[i].off+26]==s->p[q[i].off+26]) fix_crc(o.p+q[i].off,q[i].len); free(q); } } break;
  case 13: { size_t n=(size_t)rng_range(r,0,VH_MAX((long)s->n,64L)); for(size_t i=0;i<n;i++){ unsigned char c=(unsigned char)rng_next(r); buf_add(&o,&c,1); } if(n>64&&rng_chance(r,0.5)) memcpy(o.p+rng_below(r,(uint32_t)(n-40)),s->p,s->n<28?s->n:28); } break;
  case 14: buf_add(&o,s->p,s->n); { int i=(int)rng_below(r,(uint32_t)np); o.p[pg[i].off+5]|=2; fix_crc(o.p+pg[i].off,pg[i].len); } break;
  case 15: buf_add(&o,s->p,s->n); { int i=(int)rng_below(r,(uint32_t)np); uint32_t pn=(uint32_t)rng_next(r); unsigned char *p=o.p+pg[i].off; p[18]=pn&0xff;p[19]=(pn>>8)&0xff;p[20]=(pn>>16)&0xff;p[21]=pn>>24; fix_crc(p,pg[i].len); } break;
  case 16: buf_add(&o,s->p,s->n); if(o.n){ size_t at=rng_below(r,(uint32_t)o.n); size_t len=(size_t)rng_range(r,1,6000); if(len>o.n-at) len=o.n-at; memset(o.p+at,0,len); } break;
  default: { size_t cut=(size_t)rng_range(r,1,4200); buf_add(&o,s->p,cut<s->n?cut:s->n); } break;
  }
  free(pg); buf_free(s); *s=o;
}

/* ------------------------------------------------------------------ C03 */
typedef struct { OggVorbis_File vf; memsrc_t ms; int open; } H;
static int h_open(H *h,const unsigned char *d,size_t n,int seekmode,int how,rng_t *r,int *ret_out){
  memsrc_init(&h->ms,d,n,seekmode); memsrc_schedule(&h->ms,(int)rng_below(r,RS_NKINDS),(int)rng_range(r,1,5000),rng_next(r));
  if(rng_chance(r,0.6)) h->ms.rs=RS_FULL;
  char *initial=NULL; long ib=0;
  if(rng_chance(r,0.2) && n>0){ ib=rng_range(r,0,VH_MIN((long)n,9000L)); initial=(char*)d; h->ms.pos=ib; }
  int ret;
  if(how==0) ret=ov_open_callbacks(&h->ms,&h->vf,initial,ib,memsrc_cb(&h->ms));
  else { ret=ov_test_callbacks(&h->ms,&h->vf,initial,ib,memsrc_cb(&h->ms)); if(ret==0 && how==1) ret=ov_test_open(&h->vf); }
  h->open=(ret==0); *ret_out=ret; return ret;
}
static void touch_info(vorbis_info *vi){ if(vi){ volatile long a=vi->channels+vi->rate+vi->bitrate_nominal+vi->version; (void)a; if(vi->codec_setup){ volatile int b=vorbis_info_blocksize(vi,0)+vorbis_info_blocksize(vi,1); (void)b; } } }
static void touch_comment(vorbis_comment *vc){ if(vc){ volatile long a=0; if(vc->vendor) a+=(long)strlen(vc->vendor); for(int i=0;i<vc->comments;i++){ if(vc->user_comments[i]) a+=vc->user_comments[i][0]+(vc->comment_lengths[i]>0?vc->user_comments[i][vc->comment_lengths[i]-1]:0); } (void)vorbis_comment_query_count(vc,"TITLE"); (void)a; } }
static const char *opname[]={"read_float","read","read_filter-less","pcm_seek","pcm_seek_page","time_seek","time_seek_page","raw_seek","pcm_seek_lap","pcm_seek_page_lap","time_seek_lap","time_seek_page_lap","raw_seek_lap",
  "tells","totals","info","comment","bitrate","bitrate_instant","serialnumber","streams/seekable","halfrate","halfrate_p","crosslap","crosslap-self"};
#define NOPS 25
static long wild_i64(rng_t *r,ogg_int64_t total){
  switch(rng_below(r,9)){ case 0: return 0; case 1: return (long)total; case 2: return (long)total-1; case 3: return (long)total+1; case 4: return -1; case 5: return (long)(rng_next(r)>>1); case 6: return -(long)(rng_next(r)>>1);
  case 7: return 0x7fffffffffffffffL; default: return total>0?(long)rng_range(r,0,(long)total):0; }
}
/* a quarter of the sample targets sit at or around a link boundary of the opened file (also just inside a link's claimed end, where an overstated length leaves a phantom tail) */
static long wild_pos(rng_t *r,OggVorbis_File *vf,ogg_int64_t total){
  long nl=ov_streams(vf);
  if(nl>=1 && rng_chance(r,0.25)){ long j=(long)rng_below(r,(uint32_t)nl); ogg_int64_t st=0; for(long q=0;q<j;q++){ ogg_int64_t l=ov_pcm_total(vf,(int)q); if(l>0) st+=l; }
    ogg_int64_t len=ov_pcm_total(vf,(int)j); if(len<0) len=0;
    switch(rng_below(r,5)){ case 0: return (long)(st+len-rng_range(r,0,600)); case 1: return (long)(st+len+rng_range(r,-3,3)); case 2: return (long)(st+rng_range(r,-3,3)); case 3: return (long)(st+len-rng_range(r,0,40)); default: return (long)(st+rng_range(r,0,600)); } }
  return wild_i64(r,total);
}
static double wild_d(rng_t *r,double dur){
  switch(rng_below(r,9)){ case 0: return 0; case 1: return dur; case 2: return -1; case 3: return dur+1; case 4: return NAN; case 5: return INFINITY; case 6: return -INFINITY; case 7: return 1e300; default: return rng_unit(r)*dur; }
}
static void __attribute__((noinline)) dirty_stack(int i){ static const int pat[3]={0xff,0x00,0x7f}; volatile char junk[1<<15]; memset((void*)junk,pat[i%3],sizeof junk); (void)junk[4321]; }
static void run_script(rng_t *r,H *h,H *h2,int nops,size_t nbytes,const char *desc){
  OggVorbis_File *vf=&h->vf; static char ibuf[1<<16]; const char *lastop="open";
  for(int i=0;i<nops;i++){
    int o=(int)rng_below(r,NOPS); long ret=0; int bs=0; float **pcm;
    ogg_int64_t T=ov_pcm_total(vf,-1); double D=ov_time_total(vf,-1); if(!(D>=0)) D=0;
    ctx_mark("%s",opname[o]);
    dirty_stack(i);      /* whatever an earlier call left on the stack must not matter: all-ones, zero and 0x7f patterns in turn */
    /* round 8: now and then the source itself misbehaves once during the call (a read error, a short or empty read, a refused seek or tell) - the error exits of
       every entry point are then taken with whatever the script left on the stack and in the handle; safety, return domain and termination are judged as always */
    int armed=0; if(rng_chance(r,0.05)){ int nk=(int)rng_range(r,1,F_NKINDS-1); long base= nk==F_SEEK_FAIL? h->ms.n_seek : nk==F_TELL_FAIL? h->ms.n_tell : h->ms.n_read;
      memsrc_fault(&h->ms,nk,base+rng_range(r,0,2),0); armed=1; }
    if(vh_trace) fprintf(stderr,"op %d %s | state %d link %d pcm_offset %lld raw %lld\n",i,opname[o],vf->ready_state,vf->current_link,(long long)vf->pcm_offset,(long long)vf->offset); if(vh_trace) fprintf(stderr,"   os: body_fill %ld body_returned %ld lacing_fill %ld lacing_returned %ld lacing_packet %ld serial %ld\n",vf->os.body_fill,vf->os.body_returned,vf->os.lacing_fill,vf->os.lacing_returned,vf->os.lacing_packet,vf->os.serialno);
    switch(o){
    case 0: ret=ov_read_float(vf,&pcm,(int)(rng_chance(r,0.1)?wild_i64(r,5000):rng_range(r,1,5000)),rng_chance(r,0.2)?NULL:&bs);
      if(ret>0){ int ch=ov_info(vf,-1)?ov_info(vf,-1)->channels:0; volatile float acc=0; for(int c=0;c<ch;c++){ acc+=pcm[c][0]; acc+=pcm[c][ret-1]; } (void)acc; } break;
    case 1: case 2: { int len=(int)(rng_chance(r,0.15)?rng_range(r,-5,40):rng_range(r,1,(long)sizeof ibuf)); if(len>(int)sizeof ibuf) len=sizeof ibuf;
      int word= rng_chance(r,0.15)?(int)rng_range(r,-1,4):(rng_chance(r,0.5)?1:2); char *b=malloc(len>0?len:1);
      ret=ov_read(vf,b,len,(int)rng_below(r,2),word,(int)rng_below(r,2),rng_chance(r,0.2)?NULL:&bs); if(ret>len && len>=0) res_viol("C03","read-overran-buffer","ov_read returned %ld for length %d",ret,len); free(b); } break;
    case 3: ret=ov_pcm_seek(vf,wild_pos(r,vf,T)); break;
    case 4: ret=ov_pcm_seek_page(vf,wild_pos(r,vf,T)); break;
    case 5: ret=ov_time_seek(vf,wild_d(r,D)); break;
    case 6: ret=ov_time_seek_page(vf,wild_d(r,D)); break;
    case 7: ret=ov_raw_seek(vf,rng_chance(r,0.7)?rng_range(r,0,(long)nbytes):wild_i64(r,(ogg_int64_t)nbytes)); break;
    case 8: ret=ov_pcm_seek_lap(vf,wild_pos(r,vf,T)); break;
    case 9: ret=ov_pcm_seek_page_lap(vf,wild_pos(r,vf,T)); break;
    case 10: ret=ov_time_seek_lap(vf,wild_d(r,D)); break;
    case 11: ret=ov_time_seek_page_lap(vf,wild_d(r,D)); break;
    case 12: ret=ov_raw_seek_lap(vf,rng_chance(r,0.7)?rng_range(r,0,(long)nbytes):wild_i64(r,(ogg_int64_t)nbytes)); break;
    case 13: { ogg_int64_t a=ov_raw_tell(vf), b=ov_pcm_tell(vf); double t=ov_time_tell(vf); if(!code_ok(a)||!code_ok(b)){ res_viol("C03","tell-negative","raw_tell %lld pcm_tell %lld after %s: %s",(long long)a,(long long)b,lastop,desc); } (void)t; } break;
    case 14: { int l=(int)rng_range(r,-5,ov_streams(vf)+5); ogg_int64_t a=ov_raw_total(vf,l), b=ov_pcm_total(vf,l); double t=ov_time_total(vf,l); if(!code_ok(a)||!code_ok(b)) res_viol("C03","return-domain","total(%d) %lld %lld",l,(long long)a,(long long)b); if(t<0 && t!=(double)OV_EINVAL) res_viol("C03","return-domain","time_total(%d) %g",l,t); } break;
    case 15: touch_info(ov_info(vf,(int)rng_range(r,-5,ov_streams(vf)+5))); break;
    case 16: touch_comment(ov_comment(vf,(int)rng_range(r,-5,ov_streams(vf)+5))); break;
    case 17: { int l=(int)rng_range(r,-5,ov_streams(vf)+5); ret=ov_bitrate(vf,l); if(ret>0) ret=0;
      if(!code_ok(ret) && vh_trace){ fprintf(stderr,"bitrate(%d)=%ld links %d:",l,ret,vf->links); for(int q=0;q<=vf->links;q++) fprintf(stderr," off %lld",(long long)vf->offsets[q]); for(int q=0;q<vf->links;q++) fprintf(stderr," | data %lld len %lld",(long long)vf->dataoffsets[q],(long long)vf->pcmlengths[q*2+1]); fprintf(stderr,"\n"); } } break;
    case 18: ret=ov_bitrate_instant(vf); if(ret>0) ret=0; break;
    case 19: ret=ov_serialnumber(vf,(int)rng_range(r,-5,ov_streams(vf)+5)); ret=0; break;
    case 20: { long s=ov_streams(vf), k=ov_seekable(vf); if(s<1||k<0) res_viol("C03","return-domain","streams %ld seekable %ld",s,k); } break;
    case 21: ret=ov_halfrate(vf,(int)rng_below(r,2)); break;
    case 22: ret=ov_halfrate_p(vf); if(ret>0) ret=0; break;
    case 23: if(h2&&h2->open){ ret= rng_chance(r,0.5)?ov_crosslap(vf,&h2->vf):ov_crosslap(&h2->vf,vf); } break;
    default: ret=ov_crosslap(vf,vf); break;
    }
    res_eval(1);
    if(armed){ res_count("script_calls_with_a_one_shot_callback_fault_armed",1); if(h->ms.f_fired) res_count("script_calls_during_which_the_fault_fired",1); memsrc_clear_fault(&h->ms); }
    if(!code_ok(ret)) res_viol("C03","return-domain","%s returned %ld: %s",opname[o],ret,desc);
    if(h->ms.n_close) { res_viol("C03","closed-behind-callers-back","%s: close callback ran: %s",opname[o],desc); break; }
    res_count(ret<0?"calls_failed":"calls_ok",1);
    if(o!=13) lastop=opname[o];
  }
}
static void case_c03(const drvargs_t *a,long id){
  rng_t r; rng_seed(&r,a->seed,3,(uint64_t)id);
  res_begin(id);
  char desc[600]; buf_t s; buf_init(&s);
  ctx_mark("build");
  int phantom= (id%16)==11;   /* phantom-tail stratum: a link whose last page overstates its length by 20-400 samples, followed (mostly) by a link that opens but cannot be decoded */
  if(build_mixed(&r,a->thorough,&s,desc,sizeof desc-120,phantom?2:(id%8)==7)){ res_end(); buf_free(&s); return; }
  int d1=(int)(id%DMG_KINDS), d2= rng_chance(&r,0.25)?(int)rng_below(&r,DMG_KINDS):0;
  if(phantom){ d1=8; if(d2 && rng_chance(&r,0.7)) d2=0; force_modest_lie=1; res_count("phantom_tail_streams",1); }
  damage(&r,&s,d1); force_modest_lie=0; if(d2) damage(&r,&s,d2);
  int seekmode= rng_chance(&r,0.65)?1:(rng_chance(&r,0.6)?0:2); int how=(int)rng_below(&r,10); how= how<7?0: how<9?1:2;
  { size_t k=strlen(desc); snprintf(desc+k,sizeof desc-k," | %s+%s seek%d how%d",dmgname[d1],dmgname[d2],seekmode,how); }
  vh_dump("stream.ogg",s.p,s.n);
  H h,h2; memset(&h,0,sizeof h); memset(&h2,0,sizeof h2); int ret,ret2;
  ctx_mark("open"); res_eval(1);
  h_open(&h,s.p,s.n,seekmode,how,&r,&ret);
  if(!code_ok(ret)||ret>0) res_viol("C03","return-domain","open returned %d: %s",ret,desc);
  if(ret){
    if(h.ms.n_close) res_viol("C03","failed-open-closed-the-source","open returned %d and ran the close callback %ld times: %s",ret,h.ms.n_close,desc);
    if(how!=1 || 1){ if(!all_zero(&h.vf,sizeof h.vf) && !(how>=1 && ret==OV_EINVAL)) res_viol("C03","failed-open-leaves-handle-set","open returned %d, handle not cleared: %s",ret,desc); }
    ov_clear(&h.vf);
    if(h.ms.n_close) res_viol("C03","failed-open-closed-the-source","ov_clear after failed open ran close: %s",desc);
    res_bucket("openfail%d|%s|seek%d|how%d",ret,dmgname[d1],seekmode,how);
  } else {
    if(rng_chance(&r,0.4)){ ctx_mark("open2"); h_open(&h2,s.p,s.n,1,0,&r,&ret2); }
    if(how==2){ /* partial open: only queries that the documentation allows before ov_test_open, then finish or clear */
      touch_info(ov_info(&h.vf,-1)); touch_comment(ov_comment(&h.vf,-1));
      if(rng_chance(&r,0.6)){ ctx_mark("test_open"); ret=ov_test_open(&h.vf); if(!code_ok(ret)||ret>0) res_viol("C03","return-domain","ov_test_open %d",ret); if(ret){ h.open=0; if(h.ms.n_close) res_viol("C03","failed-open-closed-the-source","ov_test_open failed (%d) and closed: %s",ret,desc); } }
      else h.open=2;
    }
    if(h.open==1) run_script(&r,&h,&h2,(int)rng_range(&r,30,a->thorough?300:120),s.n,desc);
    ctx_mark("clear");
    long before=h.ms.n_close;
    if(h.open) { ov_clear(&h.vf); if(h.ms.n_close!=before+1 && before==0) res_viol("C13","close-count","close ran %ld times at ov_clear: %s",h.ms.n_close-before,desc); }
    else ov_clear(&h.vf);
    if(h2.open) ov_clear(&h2.vf);
    if(!res_nviol()) res_bucket("opened|%s|%s|seek%d|how%d",dmgname[d1],d2?"+second":"single",seekmode,how);
  }
  res_sample("%s (%zu bytes)",desc,s.n);
  buf_free(&s); res_end();
}

/* ------------------------------------------------------------------ C12 */
static const char *scnname[]={"open","open+read-all","pcm_seek","pcm_seek_page","time_seek","time_seek_page","raw_seek","pcm_seek_lap","time_seek_page_lap","raw_seek_lap","halfrate","crosslap","read-after-seek",
  "test+test_open","int-reads-and-seeks","time_seek_lap","pcm_seek_page_lap"};
#define NSCN 17
typedef struct { int scn; ogg_int64_t target; double ttarget; long rawtarget; } scn_t;
/* runs the scenario body on an opened handle; returns the library's return code of the scenario's main call(s) (first failure) */
static long scn_body(OggVorbis_File *vf,OggVorbis_File *other,const scn_t *S,long *nread_samples,memsrc_t *ms,long *fired_main){
  float **pcm; int bs; long ret=0; *nread_samples=0; long f0=ms->f_fired; *fired_main=0;
  switch(S->scn){
  case 0: return 0;
  case 1: { long g; while((g=ov_read_float(vf,&pcm,4096,&bs))>0) *nread_samples+=g; return g; }   /* reads may end in EOF under a fault: allowed */
  case 2: ret=ov_pcm_seek(vf,S->target); break;
  case 3: ret=ov_pcm_seek_page(vf,S->target); break;
  case 4: ret=ov_time_seek(vf,S->ttarget); break;
  case 5: ret=ov_time_seek_page(vf,S->ttarget); break;
  case 6: ret=ov_raw_seek(vf,S->rawtarget); break;
  case 7: ret=ov_pcm_seek_lap(vf,S->target); break;
  case 8: ret=ov_time_seek_page_lap(vf,S->ttarget); break;
  case 9: ret=ov_raw_seek_lap(vf,S->rawtarget); break;
  case 10: ret=ov_halfrate(vf,1); if(ret==0){ long g=ov_read_float(vf,&pcm,512,&bs); if(g<0) ret=g; ov_halfrate(vf,0); } break;
  case 11: ret= other? ov_crosslap(other,vf):0; break;
  case 13: return 0;   /* the open itself is the scenario (ov_test_callbacks + ov_test_open, see the caller) */
  case 14: { /* 16-bit reads interleaved with seeks: the first failing call decides */
      static char ib[4096]; ret=0;
      for(int k=0;k<4 && ret>=0;k++){ long g=ov_read(vf,ib,sizeof ib,0,2,1,&bs); if(g<0){ ret=g; break; } *nread_samples+=g; ret=ov_pcm_seek(vf,(S->target*(k+1))/5); }
      *fired_main=0; return ret; }   /* mixes reads (EOF allowed) and seeks: judged for safety, close, termination and recovery only */
  case 15: ret=ov_time_seek_lap(vf,S->ttarget); break;
  case 16: ret=ov_pcm_seek_page_lap(vf,S->target); break;
  default: ret=ov_pcm_seek(vf,S->target); *fired_main=ms->f_fired-f0; if(ret==0){ for(int k=0;k<3;k++){ long g=ov_read_float(vf,&pcm,1024,&bs); if(g<0){ ret=g; break; } *nread_samples+=g; } } break;
  }
  return ret;
}
/* recovery probe: after faults stop, seeks to valid positions and the reads after them must equal the never-faulted reference */
/* the true end of the data is still an end of file, not an error (a zero-byte read is told from a read error only by errno, which an earlier failing callback may
   have left set).  from_start: seek to 0 (reads the head of the file only, so nothing between the failure and the end of data consults errno) and read everything. */
static int probe_eof(OggVorbis_File *vf,const refdec_t *F,rng_t *r,char *why,size_t wn){
  {
    /* from the start when that is cheap (a seek to 0 reads the head of the file only, so nothing between the failure and the true end of data consults errno),
       else from 700 samples before the end */
    ogg_int64_t p= (F->total<=20000 || rng_chance(r,0.125))? 0 : (F->total>700? F->total-700:0); int rs=ov_pcm_seek(vf,p); if(rs){ snprintf(why,wn,"ov_pcm_seek(%lld) near the end after the fault cleared returned %d",(long long)p,rs); return -1; }
    ogg_int64_t pos=p; long g; float **pcm; int bs; int guard=0;
    while((g=ov_read_float(vf,&pcm,4096,&bs))>0 && guard++<10000) pos+=g;
    if(g<0){ snprintf(why,wn,"read at the end of the stream after recovery returned %ld at %lld of %lld",g,(long long)pos,(long long)F->total); return -1; }
    if(pos!=F->total){ snprintf(why,wn,"reading to the end after recovery stopped at %lld of %lld",(long long)pos,(long long)F->total); return -1; }
  }
  return 0;
}
/* "a seek to ANY valid position ... behaves exactly as on a handle that never saw the failure": the first call after the fault cleared is one of the other seek
   flavours (round 8), made on the recovered handle and on a twin opened on the same bytes that never saw a fault; return code and landing position must agree
   (the audio after it is then judged against the linear reference by the caller).  Flavour 1 asks for the raw position the handle itself reports, which the
   library answers without moving the source: whatever the failed call left in the read-ahead buffer is then decoded as if it lay at that offset. */
static int recovery_other_seek(OggVorbis_File *vf,const unsigned char *bytes,size_t nbytes,const refdec_t *F,rng_t *r,int flavour,ogg_int64_t p,ogg_int64_t *landed,char *why,size_t wn){
  static const char *fn[]={"","ov_raw_seek(ov_raw_tell())","ov_raw_seek(random offset)","ov_pcm_seek_page","ov_time_seek","ov_time_seek_page"};
  H t; memset(&t,0,sizeof t); memsrc_init(&t.ms,bytes,nbytes,1);
  if(ov_open_callbacks(&t.ms,&t.vf,NULL,0,memsrc_cb(&t.ms))){ snprintf(why,wn,"harness: twin open failed"); return -2; }
  ogg_int64_t x=0; double tt=0; int ra,rb;
  switch(flavour){
    case 1: x=ov_raw_tell(vf); if(x<0||x>(ogg_int64_t)nbytes){ ov_clear(&t.vf); snprintf(why,wn,"ov_raw_tell %lld after the fault cleared (file of %zu bytes)",(long long)x,nbytes); return -1; }
            ra=ov_raw_seek(vf,x); rb=ov_raw_seek(&t.vf,x); break;
    case 2: x=(ogg_int64_t)rng_range(r,0,(long)nbytes); ra=ov_raw_seek(vf,x); rb=ov_raw_seek(&t.vf,x); break;
    case 3: x=p; ra=ov_pcm_seek_page(vf,p); rb=ov_pcm_seek_page(&t.vf,p); break;
    default:{ int l=ref_link_of(F,p); if(l<0) l=0; tt=0; for(int i=0;i<l;i++) tt+=(double)F->l[i].len/F->l[i].rate; tt+=(double)(p-F->l[l].start)/F->l[l].rate; x=p;
            if(flavour==4){ ra=ov_time_seek(vf,tt); rb=ov_time_seek(&t.vf,tt); } else { ra=ov_time_seek_page(vf,tt); rb=ov_time_seek_page(&t.vf,tt); } }
  }
  ogg_int64_t ta=ov_pcm_tell(vf), tb=ov_pcm_tell(&t.vf); ogg_int64_t wa=ov_raw_tell(vf), wb=ov_raw_tell(&t.vf);
  ov_clear(&t.vf);
  res_count("recovery_first_call_is_another_seek_flavour",1);
  if(ra!=rb){ snprintf(why,wn,"%s(%lld) after the fault cleared returned %d, on a handle that never saw the failure %d",fn[flavour],(long long)x,ra,rb); return -1; }
  if(ra==0 && ta!=tb){ snprintf(why,wn,"%s(%lld) after the fault cleared: ov_pcm_tell %lld, a handle that never saw the failure reports %lld",fn[flavour],(long long)x,(long long)ta,(long long)tb); return -1; }
  if(ra==0 && wa!=wb){ snprintf(why,wn,"%s(%lld) after the fault cleared: ov_raw_tell %lld, a handle that never saw the failure reports %lld",fn[flavour],(long long)x,(long long)wa,(long long)wb); return -1; }
  if(ra) return 1;        /* both refuse alike (e.g. raw offset beyond the last page): the plain seeks that follow must still work */
  if(ta<0||ta>F->total){ snprintf(why,wn,"%s landed at %lld of %lld",fn[flavour],(long long)ta,(long long)F->total); return -1; }
  *landed=ta; return 0;
}
static int recovery_probe(OggVorbis_File *vf,const unsigned char *bytes,size_t nbytes,const refdec_t *F,rng_t *r,char *why,size_t wn,int lapfirst){
  int eof_first= !lapfirst && F->total<=20000 && rng_chance(r,0.25);
  int flavour= (!lapfirst && !eof_first)? (int)rng_below(r,6) : 0;
  if(eof_first){ res_count("recovery_starts_with_seek_to_0_and_read_to_the_end",1); if(probe_eof(vf,F,r,why,wn)) return -1; }
  for(int k=0;k<3;k++){
    ogg_int64_t p= F->total>0?(ogg_int64_t)rng_range(r,0,(long)F->total-1):0;
    if(k==2) p=0;
    ogg_int64_t pos=p; long want=1500;
    if(k==0 && lapfirst){
      /* first call after the fault is a LAPPED seek: what it laps from is whatever the failure left behind, so only the return domain, the position and the
         audio after the lapped region (half a short block of the target link) are judged; a refusal is allowed here, the plain seeks below must then still work */
      int rs= lapfirst==1? ov_pcm_seek_lap(vf,p) : lapfirst==2? ov_pcm_seek_page_lap(vf,p) : ov_raw_seek_lap(vf,ov_raw_tell(vf)>0?ov_raw_tell(vf)/2:0);
      res_count("recovery_first_call_is_lapped_seek",1);
      if(!code_ok(rs)||rs>0){ snprintf(why,wn,"lapped seek after the fault cleared returned %d",rs); return -1; }
      if(rs) continue;
      pos=ov_pcm_tell(vf); if(lapfirst==1 && pos!=p){ snprintf(why,wn,"tell %lld after lapped seek to %lld",(long long)pos,(long long)p); return -1; }
      if(pos<0||pos>F->total){ snprintf(why,wn,"tell %lld out of range after lapped seek",(long long)pos); return -1; }
      vorbis_info *vi=ov_info(vf,-1); long skip= vi? vorbis_info_blocksize(vi,0)/2 : 4096;
      while(skip>0 && pos<F->total){ float **pcm; int bs; long g=ov_read_float(vf,&pcm,(int)skip,&bs); if(g<=0){ snprintf(why,wn,"read after lapped recovery seek returned %ld at %lld of %lld",g,(long long)pos,(long long)F->total); return -1; }
        if(ref_link_of(F,pos)!=bs) break; pos+=g; skip-=g; }
      if(ov_pcm_tell(vf)!=pos){ snprintf(why,wn,"tell %lld, expected %lld after reading through the lapped region",(long long)ov_pcm_tell(vf),(long long)pos); return -1; }
      res_count("lapped_recovery_seeks_verified",1);
    }else if(k==0 && flavour){
      int q=recovery_other_seek(vf,bytes,nbytes,F,r,flavour,p,&pos,why,wn); if(q<0) return -1; if(q>0) continue;
    }else{
    int rs=ov_pcm_seek(vf,p); if(rs){ snprintf(why,wn,"ov_pcm_seek(%lld) after the fault cleared returned %d",(long long)p,rs); return -1; }
    if(ov_pcm_tell(vf)!=p){ snprintf(why,wn,"tell %lld after seek to %lld",(long long)ov_pcm_tell(vf),(long long)p); return -1; }
    }
    while(want>0 && pos<F->total){
      float **pcm; int bs; long g=ov_read_float(vf,&pcm,(int)want,&bs);
      if(g<=0){ snprintf(why,wn,"read after recovery seek returned %ld at %lld of %lld",g,(long long)pos,(long long)F->total); return -1; }
      int l=ref_link_of(F,pos); if(l<0||bs!=l){ snprintf(why,wn,"bitstream %d, reference link %d at %lld",bs,l,(long long)pos); return -1; }
      const reflink_t *L=&F->l[l]; long idx=(long)(pos-L->start); if(idx+g>L->nout){ snprintf(why,wn,"read crosses link end"); return -1; }
      for(int c=0;c<L->ch;c++) if(memcmp(pcm[c],L->pcm[c]+idx,sizeof(float)*g)){ snprintf(why,wn,"audio after recovery differs from the never-faulted decode at %lld (ch %d)",(long long)pos,c); return -1; }
      pos+=g; want-=g;
    }
  }
  if(!eof_first && probe_eof(vf,F,r,why,wn)) return -1;
  return 0;
}
static void case_c12(const drvargs_t *a,long id){
  rng_t r; rng_seed(&r,a->seed,12,(uint64_t)(id/NSCN));     /* the stream is shared by the NSCN scenarios of a group */
  res_begin(id);
  int scn=(int)(id%NSCN); int skind=(int)((id/NSCN)%4);
  chaindesc_t cd; buf_t s; buf_init(&s); char desc[600];
  ctx_mark("build");
  vh_mux_header_style=(int)((id/(NSCN*4))%3);    /* header pages: 2 per link / 3 per link / many small continued ones (round 8) */
  gen_chain(&r,skind==0?1:3,a->thorough?9000:5000,GC_ALLOW_EMPTY,&cd);
  if(skind==1){ cd.nlinks=3; for(int i=0;i<3;i++){ if(!cd.cfg[i].nsamples) cd.cfg[i].nsamples=1500+i; } }
  if(skind==2){ cd.nlinks=VH_MIN(cd.nlinks,2); for(int i=0;i<cd.nlinks;i++){ cd.policy[i]=PAGE_FLUSH_EACH; if(cd.cfg[i].nsamples>3000) cd.cfg[i].nsamples=3000; } }
  if(skind==3){ /* hand-built pages with tail-only pages (see mux_tailpages): page seeks walk backwards with _get_prev_page */
    cd.nlinks=1; cd.cfg[0].mode=ENC_VBR; cd.cfg[0].channels=(int)rng_range(&r,1,2); cd.cfg[0].rate=44100; cd.cfg[0].quality=(float)(0.4+0.6*rng_unit(&r));
    cd.cfg[0].sig= rng_chance(&r,0.5)?SIG_MULTI:SIG_NOISE; cd.cfg[0].nsamples=(long)rng_range(&r,30000,60000); cd.goffset[0]=0; }
  for(int i=0;i<cd.nlinks;i++) if(cd.cfg[i].nsamples>6000 && !a->thorough && skind!=3) cd.cfg[i].nsamples=6000;
  /* gen_chain may have drawn a single link for skind 1: fill the other two */
  if(skind==1){ for(int i=1;i<3;i++) if(cd.cfg[i].rate==0){ cd.cfg[i]=cd.cfg[0]; cd.cfg[i].sigseed+=i; cd.serial[i]=cd.serial[0]+i*7+1; cd.policy[i]=cd.policy[0]; cd.fill[i]=cd.fill[0]; } }
  chain_describe(&cd,desc,sizeof desc-100);
  if(skind==3){ encres_t er; if(enc_run(&cd.cfg[0],&er)){ encres_free(&er); res_sample("encoder refused"); res_end(); buf_free(&s); return; } mux_tailpages(&er.pk,cd.serial[0],cd.muxseed,&s); encres_free(&er); }
  else
  if(build_chain(&cd,&s,NULL)){ res_sample("encoder refused"); res_end(); buf_free(&s); return; }
  refdec_t F; if(ref_decode(s.p,s.n,0,&F)){ res_viol("C12","harness:reference-decode-failed","%s: %s",F.err,desc); ref_free(&F); res_end(); buf_free(&s); return; }
  res_count(vh_mux_header_style==0?"cases_with_two_header_pages_per_link":vh_mux_header_style==1?"cases_with_one_header_packet_per_page":"cases_with_headers_over_many_continued_pages",1);
  rng_t rs; rng_seed(&rs,a->seed,121,(uint64_t)id);
  scn_t S; S.scn=scn; S.target= F.total>0?(ogg_int64_t)rng_range(&rs,0,(long)F.total):0; if(rng_chance(&rs,0.3)) S.target=F.total; if(rng_chance(&rs,0.2)&&F.nlinks>1) S.target=F.l[F.nlinks-1].start;
  double dur=0; for(int i=0;i<F.nlinks;i++) dur+=(double)F.l[i].len/F.l[i].rate; S.ttarget=rng_unit(&rs)*dur; S.rawtarget=rng_range(&rs,0,(long)s.n);
  if(skind==3 && F.total>10){ /* well inside the audio, where the page before the target holds only the tail of a continued packet (page seeks then walk backwards) */
    S.target=(ogg_int64_t)(F.total*(0.3+0.65*rng_unit(&rs))); S.ttarget=dur*(0.3+0.65*rng_unit(&rs)); }
  { size_t k=strlen(desc); snprintf(desc+k,sizeof desc-k," | scenario %s target %lld",scnname[scn],(long long)S.target); }
  /* fault-free run: count callback invocations per class, separately for the open and for the scenario body */
  long Kopen[3],Kall[3]; long clean_ret; long clean_n;
  {
    H h,o; int ret; memset(&h,0,sizeof h); memset(&o,0,sizeof o);
    memsrc_init(&h.ms,s.p,s.n,1);
    if(scn==13){ ret=ov_test_callbacks(&h.ms,&h.vf,NULL,0,memsrc_cb(&h.ms)); if(ret==0) ret=ov_test_open(&h.vf); }
    else ret=ov_open_callbacks(&h.ms,&h.vf,NULL,0,memsrc_cb(&h.ms));
    if(ret){ res_viol("C12","harness:clean-open-failed","%d: %s",ret,desc); ref_free(&F); res_end(); buf_free(&s); return; }
    Kopen[0]=h.ms.n_read; Kopen[1]=h.ms.n_seek; Kopen[2]=h.ms.n_tell;
    if(scn==11){ memsrc_init(&o.ms,s.p,s.n,1); ov_open_callbacks(&o.ms,&o.vf,NULL,0,memsrc_cb(&o.ms)); float **pcm; int bs; ov_read_float(&o.vf,&pcm,300,&bs); o.open=1; }
    { long fm; clean_ret=scn_body(&h.vf,o.open?&o.vf:NULL,&S,&clean_n,&h.ms,&fm); }
    Kall[0]=h.ms.n_read; Kall[1]=h.ms.n_seek; Kall[2]=h.ms.n_tell;
    ov_clear(&h.vf); if(o.open) ov_clear(&o.vf);
  }
  long lim=a->thorough?4000:300; long nruns=0, nerr=0, nrecov=0, swallowed=0;
  for(int fk=1;fk<F_NKINDS;fk++){
    int cls= fk==F_SEEK_FAIL?1: fk==F_TELL_FAIL?2:0;
    long k0= (scn<=1||scn==13)?0:Kopen[cls], k1=Kall[cls]+ ((scn<=1||scn==13)?2:1);          /* open scenarios enumerate the open's callbacks; others only the body's */
    long span=k1-k0; if(span<=0) continue; long step= span>lim? (span+lim-1)/lim : 1;
    for(int persist=0;persist<2;persist++) for(long k=k0;k<k1;k+=step){
      long kk= step>1? k+(long)rng_below(&rs,(uint32_t)step) : k; if(kk>=k1) kk=k1-1;
      H h,o; int oret; memset(&h,0,sizeof h); memset(&o,0,sizeof o);
      { const char *only=getenv("C12_ONLY"); if(only){ int ofk,op_; long ok_; if(sscanf(only,"%d,%ld,%d",&ofk,&ok_,&op_)==3 && (ofk!=fk||ok_!=kk||op_!=persist)) continue; } }
      ctx_mark("%s %s@%ld %s",scnname[scn],fault_name(fk),kk,persist?"persistent":"one-shot");
      memsrc_init(&h.ms,s.p,s.n,1); memsrc_fault(&h.ms,fk,kk,persist);
      if(scn==13){ oret=ov_test_callbacks(&h.ms,&h.vf,NULL,0,memsrc_cb(&h.ms));
        if(oret==0){ if(h.ms.n_close) res_viol("C12","closed-behind-callers-back","ov_test_callbacks ran close: %s",desc); oret=ov_test_open(&h.vf);
          if(oret){ /* documented: a failed ov_test_open has already cleared the handle */ if(h.ms.n_close) res_viol("C12","failed-open-closed-the-source","ov_test_open failed (%d) and ran close: %s",oret,desc); memset(&h.vf,0,sizeof h.vf); } } }
      else oret=ov_open_callbacks(&h.ms,&h.vf,NULL,0,memsrc_cb(&h.ms));
      nruns++; res_eval(1);
      long fired_open=h.ms.f_fired; int truefail=(fk==F_READ_ERR||fk==F_SEEK_FAIL||fk==F_TELL_FAIL);
      if(!code_ok(oret)||oret>0) res_viol("C12","return-domain","open returned %d under %s@%ld: %s",oret,fault_name(fk),kk,desc);
      if(oret){
        nerr++;
        if(h.ms.n_close) res_viol("C12","failed-open-closed-the-source","%s@%ld %s: open returned %d and ran close: %s",fault_name(fk),kk,persist?"persistent":"one-shot",oret,desc);
        ov_clear(&h.vf);
        continue;
      }
      if(fired_open && truefail && !(fk==F_SEEK_FAIL && kk==0)){ swallowed++; char key[96]; snprintf(key,sizeof key,"open-reports-success-although-%s-fired",fault_name(fk));
        res_viol("C12",key,"%s@%ld %s fired %ld time(s) during ov_open_callbacks, which returned 0 (links %ld vs %d): %s",fault_name(fk),kk,persist?"persistent":"one-shot",fired_open,ov_streams(&h.vf),F.nlinks,desc); }
      if(scn==11){ memsrc_init(&o.ms,s.p,s.n,1); if(ov_open_callbacks(&o.ms,&o.vf,NULL,0,memsrc_cb(&o.ms))==0){ float **pcm; int bs; ov_read_float(&o.vf,&pcm,300,&bs); o.open=1; } }
      long nn; long fired_body=0; long bret=scn_body(&h.vf,o.open?&o.vf:NULL,&S,&nn,&h.ms,&fired_body);
      if(!code_ok(bret)) res_viol("C12","return-domain","%s returned %ld under %s@%ld: %s",scnname[scn],bret,fault_name(fk),kk,desc);
      if(h.ms.n_close) res_viol("C12","closed-behind-callers-back","%s under %s@%ld ran the close callback: %s",scnname[scn],fault_name(fk),kk,desc);
      if(fired_body && truefail && bret>=0 && scn>=2 && scn!=10 && scn!=11){ char key[96]; snprintf(key,sizeof key,"%s-reports-success-although-%s-fired",scnname[scn],fault_name(fk));
        res_viol("C12",key,"%s@%ld %s fired %ld time(s) during %s, which returned %ld (clean run: %ld): %s",fault_name(fk),kk,persist?"persistent":"one-shot",fired_body,scnname[scn],bret,clean_ret,desc); }
      if(bret<0) nerr++;
      if(bret<0 && scn>=2){ /* the queries an application makes between a failed call and its next attempt (no I/O involved): defined answers, nothing out of bounds */
        long q1=ov_bitrate_instant(&h.vf); long q2=ov_bitrate(&h.vf,-1); ogg_int64_t q3=ov_pcm_tell(&h.vf), q4=ov_raw_tell(&h.vf); double q5=ov_time_tell(&h.vf); vorbis_info *qi=ov_info(&h.vf,-1); vorbis_comment *qc=ov_comment(&h.vf,-1);
        res_eval(1); res_count("query_rounds_after_a_failed_call",1);
        if(!code_ok(q1)||!code_ok(q2)||!code_ok(q3)||!code_ok(q4)) res_viol("C12","return-domain","queries after a failed %s: bitrate_instant %ld bitrate %ld pcm_tell %lld raw_tell %lld: %s",scnname[scn],q1,q2,(long long)q3,(long long)q4,desc);
        if(qi){ volatile long t=qi->rate+qi->channels; (void)t; } if(qc){ volatile int t=qc->comments; (void)t; } (void)q5;
      }
      if(bret<0 && persist && scn>=2 && fired_open==0){
        /* the source is still failing: one more call of another kind on the handle whose decode machine the failure dumped (error or EOF, never a crash) */
        int pick=(int)(hash64((uint64_t)id*131u+(uint64_t)kk*7u+(uint64_t)fk)%5); H o2; memset(&o2,0,sizeof o2); long r2=0; float **pcm2; int bs2;
        ctx_mark("%s %s@%ld then call %d under the persisting fault",scnname[scn],fault_name(fk),kk,pick);
        if(pick<=1){ memsrc_init(&o2.ms,s.p,s.n,1); if(ov_open_callbacks(&o2.ms,&o2.vf,NULL,0,memsrc_cb(&o2.ms))==0){ ov_read_float(&o2.vf,&pcm2,300,&bs2); o2.open=1; } }
        switch(pick){
          case 0: if(o2.open) r2=ov_crosslap(&h.vf,&o2.vf); break;     /* the faulted handle is the OLD stream */
          case 1: if(o2.open) r2=ov_crosslap(&o2.vf,&h.vf); break;     /* ... the NEW stream */
          case 2: r2=ov_read_float(&h.vf,&pcm2,256,&bs2); break;
          case 3: r2=ov_pcm_seek_lap(&h.vf,S.target); break;
          default: r2=ov_time_seek_lap(&h.vf,S.ttarget); break;
        }
        res_eval(1); res_count("second_calls_under_persisting_fault",1);
        if(!code_ok(r2)) res_viol("C12","return-domain","call %d after a failed %s returned %ld under %s@%ld: %s",pick,scnname[scn],r2,fault_name(fk),kk,desc);
        if(h.ms.n_close) res_viol("C12","closed-behind-callers-back","call %d after a failed %s ran the close callback: %s",pick,scnname[scn],desc);
        if(o2.open) ov_clear(&o2.vf);
      }
      /* callbacks work again: a seek to any valid position and the reads after it behave as on a never-faulted handle */
      memsrc_clear_fault(&h.ms);
      if(fired_open==0){   /* the statement promises recovery for failures AFTER a successful open */
        char why[200];
        if(ov_streams(&h.vf)==F.nlinks && ov_pcm_total(&h.vf,-1)==F.total){
          if(recovery_probe(&h.vf,s.p,s.n,&F,&rs,why,sizeof why,(bret<0 && (hash64((uint64_t)id*977u+(uint64_t)kk)&1))? 1+(int)(hash64((uint64_t)id*31u+(uint64_t)kk)%3):0)){ char key[96]; snprintf(key,sizeof key,"no-recovery-after-%s-during-%s",fault_name(fk),scnname[scn]); res_viol("C12",key,"%s@%ld %s: %s: %s",fault_name(fk),kk,persist?"persistent":"one-shot",why,desc); }
          else nrecov++;
        } else if(fired_open==0 || !truefail){
          /* short/zero/one-byte reads during open may legitimately end the scan early (fewer links seen): safety and termination only */
          res_count("opens_with_fewer_links_after_short_reads",1);
        }
      }
      ov_clear(&h.vf); if(h.ms.n_close!=1) res_viol("C12","close-count","close ran %ld times: %s",h.ms.n_close,desc);
      if(o.open) ov_clear(&o.vf);
      if(res_nviol()>=6) goto out;
    }
    if(!res_nviol()) res_bucket("%s|%s|%s",scnname[scn],fault_name(fk),skind==0?"single":skind==1?"chain3":skind==2?"paged-small":"continued-pages");
  }
out:
  res_count("faulted_runs",nruns); res_count("runs_reporting_error",nerr); res_count("recovery_probes_passed",nrecov);
  res_sample("%s: K_open r/s/t %ld/%ld/%ld, K_total %ld/%ld/%ld, %ld faulted runs",desc,Kopen[0],Kopen[1],Kopen[2],Kall[0],Kall[1],Kall[2],nruns);
  vh_mux_header_style=0;
  ref_free(&F); buf_free(&s); res_end();
}

int main(int argc,char **argv){
  drvargs_t a; if(drv_parse(argc,argv,&a)) return 2;
  for(long i=a.first;i<a.first+a.count;i++){
    if(!strcmp(a.mode,"c03")) case_c03(&a,i);
    else if(!strcmp(a.mode,"c12")) case_c12(&a,i);
    else { fprintf(stderr,"unknown mode %s\n",a.mode); return 2; }
  }
  return 0;
}
