/* Shared harness library for the xiph/vorbis runtime monitors. */
#ifndef VH_COMMON_H
#define VH_COMMON_H
#include <stdint.h>
#include <stddef.h>
#include <stdio.h>
#include <stdlib.h>
#include <string.h>
#include <setjmp.h>
#include <ogg/ogg.h>
#include <vorbis/codec.h>
#include <vorbis/vorbisenc.h>
#include <vorbis/vorbisfile.h>

/* ---------- PRNG (xoshiro256**, seeded by splitmix64 of (seed,stream,id)) ---------- */
typedef struct { uint64_t s[4]; } rng_t;
void     rng_seed(rng_t *r, uint64_t seed, uint64_t stream, uint64_t id);
uint64_t rng_next(rng_t *r);
uint32_t rng_below(rng_t *r, uint32_t n);          /* [0,n), n>0 */
long     rng_range(rng_t *r, long lo, long hi);    /* inclusive */
double   rng_unit(rng_t *r);                       /* [0,1) */
int      rng_chance(rng_t *r, double p);
uint64_t hash64(uint64_t x);
uint64_t fnv1a(const void *p, size_t n, uint64_t h); /* h=0 -> offset basis */

/* ---------- byte buffer ---------- */
typedef struct { unsigned char *p; size_t n, cap; } buf_t;
void buf_init(buf_t *b);
void buf_add(buf_t *b, const void *p, size_t n);
void buf_free(buf_t *b);

/* ---------- packet list ---------- */
typedef struct {
  unsigned char *data; long bytes;
  ogg_int64_t granulepos, packetno; int b_o_s, e_o_s;
} pkt_t;
typedef struct { pkt_t *v; int n, cap; } pktlist_t;
void pktlist_init(pktlist_t *l);
void pktlist_push(pktlist_t *l, const ogg_packet *op);
void pktlist_free(pktlist_t *l);
void pkt_to_ogg(const pkt_t *p, ogg_packet *op);

/* ---------- signals ---------- */
enum { SIG_SILENCE=0, SIG_DC, SIG_TONE, SIG_MULTI, SIG_NOISE, SIG_CLICKS, SIG_SWEEP,
       SIG_OVER, SIG_DENORM, SIG_ALT, SIG_BURSTS, SIG_IMPULSE, SIG_ENDCLICK,
       SIG_GATED /* multi-tones, each channel digitally silent in its own segments */, SIG_WIDE /* per-channel partials up to 0.42*rate */,
       SIG_ONSET /* digital silence everywhere, then a loud noise burst in ONE channel (see sig_onset_params) */, SIG_NKINDS };
void sig_onset_params(uint64_t seed,int channels,long nsamples,int *burst_channel,long *onset);
#define SIG_NCLASSIC 13   /* kinds drawn by gen_chain (kept fixed so that adding kinds does not reshuffle existing workloads) */
float sig_sample(int kind, uint64_t seed, int ch, long i, long rate, long nsamples);
const char *sig_name(int kind);

/* ---------- encoder driver ---------- */
enum { ENC_VBR=0, ENC_MANAGED=1, ENC_INIT_ABR=2, ENC_INIT_VBR=3 };
enum { CHUNK_ONE=0, CHUNK_1, CHUNK_1024, CHUNK_RANDOM, CHUNK_HUGE, CHUNK_NKINDS };
typedef struct {
  int channels; long rate;
  int mode;                 /* ENC_* */
  float quality;            /* vbr */
  long br_max, br_nom, br_min; /* managed */
  int coupling_off;         /* OV_ECTL_COUPLING_SET 0 */
  double lowpass_khz;       /* <=0: untouched */
  double impulse_block_bias;/* NaN-free: 0 => untouched, else set */
  int have_rm2; double rm2_reservoir_bits_secs; double rm2_bias; double rm2_damping; /* RATEMANAGE2 override */
  int refused_wrote;        /* k>0: before the k-th accepted vorbis_analysis_wrote, report far more samples than were requested (must be refused with OV_EINVAL and change nothing) */
  int direct_probe;         /* managed streams: every 3rd block is first offered to vorbis_analysis(vb,&op), which must refuse it (OV_EINVAL) and leave the block fit for addblock/flushpacket */
  int rm2_disable;          /* ENC_MANAGED only: after vorbis_encode_setup_managed, switch management off again through OV_ECTL_RATEMANAGE2_SET(NULL): the stream must then be plain VBR */
  int rm2_avg_off; long rm2_max_kbps;   /* with have_rm2: switch average tracking off / set the hard maximum through the control interface (0: untouched) */
  int sig; uint64_t sigseed; long nsamples;
  int chunk; int lazy;
  int direct;               /* unmanaged only: take packets from vorbis_analysis(vb,&op) instead of addblock/flushpacket */
  const char *const *comments; int ncomments;
} enccfg_t;
typedef struct {
  int setup_ret;            /* 0 or OV_E* from set-up; nothing else valid if != 0 */
  pktlist_t pk;             /* pk.v[0..2] headers, then audio */
  int channels; long rate; long bs0, bs1;
  long bitrate_upper, bitrate_nominal, bitrate_lower, bitrate_window;
  long direct_probe_bad /* vorbis_analysis(vb,&op) on a managed stream did not answer OV_EINVAL */; long ncalls_wrote; long nsubmitted; int refused_wrote_ret /* what the over-long report returned (0 if none was made) */; long wrote_errors /* correct reports that were refused */;
  /* managed settings read back through RATEMANAGE2_GET (valid if managed) */
  int managed; long rm_min_kbps_x1000, rm_max_kbps_x1000, rm_avg; double rm_reservoir_bits, rm_bias;
} encres_t;
void enccfg_default(enccfg_t *c);
int  enc_run(const enccfg_t *c, encres_t *r);   /* returns setup_ret */
void encres_free(encres_t *r);
void enccfg_json(const enccfg_t *c, char *out, size_t n);

/* ---------- Ogg muxing / scanning ---------- */
extern __thread int vh_mux_header_style;   /* 0 comment+setup on one page (default), 1 one header packet per page, 2 comment+setup over several small continued pages */
enum { PAGE_DEFAULT=0, PAGE_FLUSH_EACH, PAGE_FILL, PAGE_RANDOM, PAGE_NKINDS };
void mux_stream(const pktlist_t *pk, int serial, int policy, int fill, uint64_t seed, buf_t *out);
void mux_stream_off(const pktlist_t *pk, int serial, int policy, int fill, uint64_t seed, long goffset, buf_t *out);
/* hand-built pages: 1-3 packets per page, and every few pages a pair A|B where B holds nothing but the tail of a packet begun on A
   (valid Ogg that libogg's own paging almost never produces; page seeks then have to walk backwards from B) */
void mux_tailpages(const pktlist_t *pk, int serial, uint64_t seed, buf_t *out);
int  mux_headless_tail(const pktlist_t *pk, int serial, int first, buf_t *out);   /* link data starts with continuation-only pages (see common.c); 0 if not possible */
typedef struct {
  long off, len; int serial; ogg_int64_t granule; int bos, eos, continued, packets; long pageno;
} pageinfo_t;
int  page_scan(const unsigned char *d, size_t n, pageinfo_t **out); /* returns count */
void mux_add_foreign(const buf_t *link, int fserial, uint64_t seed, int where, buf_t *out);   /* a foreign logical stream multiplexed into one muxed link (see common.c) */

/* ---------- random chained physical streams made by the real encoder ---------- */
#define VH_MAXLINKS 40
typedef struct {
  int nlinks; enccfg_t cfg[VH_MAXLINKS]; int serial[VH_MAXLINKS]; int policy[VH_MAXLINKS]; int fill[VH_MAXLINKS];
  uint64_t muxseed;
  long goffset[VH_MAXLINKS];   /* added to every granule position of the link (a stream cut out of a longer one starts above zero) */
} chaindesc_t;
/* flags for gen_chain */
#define GC_ALLOW_EMPTY 1   /* links with 0 samples / tiny links */
#define GC_MULTICH     2   /* 3..8 channel links occasionally */
#define GC_MANAGED     4   /* managed-mode links occasionally */
#define GC_GOFFSET    16   /* some links start at a non-zero granule position */
#define GC_BEGINTRIM  32   /* some links are begin-trimmed (negative goffset on entry; vh_mux_link lowers every granule position by t < first page's and sets goffset back to 0, nsamples to N-t) */
#define GC_BIGPAGES    8   /* occasionally a many-channel high-quality link whose pages approach 64 KiB */
void gen_chain(rng_t *r, int maxlinks, long maxN, int flags, chaindesc_t *d);
int  build_chain(chaindesc_t *d, buf_t *out, size_t *link_off /*nlinks+1 or NULL*/);   /* may reset d->goffset[i] (see vh_mux_link) */
void vh_mux_link(const pktlist_t *pk, chaindesc_t *d, int i, buf_t *out);
void chain_describe(const chaindesc_t *d, char *out, size_t n);

/* ---------- in-memory data source with read schedules, faults and a budget ---------- */
enum { RS_FULL=0, RS_CAP, RS_ONE, RS_RANDOM, RS_ONE_THEN_FULL, RS_NKINDS };
enum { F_NONE=0, F_READ_ERR, F_READ_ZERO, F_READ_ONE, F_SEEK_FAIL, F_TELL_FAIL, F_NKINDS };
typedef struct {
  const unsigned char *data; int64_t len, pos;
  int seekmode;             /* 1 seekable, 0 no seek_func, 2 seek_func returns -1 */
  int rs; int rs_cap; rng_t rs_rng;
  int f_kind; long f_at; int f_persist; int f_on; long f_fired;
  long n_read, n_seek, n_tell, n_close, n_calls; int64_t bytes_served;
  long budget;              /* 0 = none; callback invocations allowed for the current API call */
  long budget_used; sigjmp_buf *jb; int overrun;
  int errno_dirty;          /* a source that retried an interrupted read: successful reads return with errno == EINTR (legal: errno is only meaningful after a failure) */
} memsrc_t;
extern int memsrc_errno_dirty_default;   /* copied into errno_dirty by memsrc_init */
void memsrc_init(memsrc_t *m, const unsigned char *d, size_t n, int seekmode);
void memsrc_schedule(memsrc_t *m, int rs, int cap, uint64_t seed);
void memsrc_fault(memsrc_t *m, int kind, long at, int persist);
void memsrc_clear_fault(memsrc_t *m);
ov_callbacks memsrc_cb(const memsrc_t *m);
const char *fault_name(int k);

/* ---------- reference linear decode through vorbisfile ---------- */
typedef struct { int ch; long rate; int64_t start, len /*full-rate samples*/; long nout /*samples stored*/;
                 float **pcm; long bs0, bs1; long serial; } reflink_t;
typedef struct { int nlinks; reflink_t *l; int64_t total; int hs; char err[160]; } refdec_t;
int  ref_decode(const unsigned char *d, size_t n, int halfrate, refdec_t *out); /* 0 ok */
void ref_free(refdec_t *r);
int  ref_link_of(const refdec_t *r, int64_t pos); /* link containing absolute position, -1 if pos>=total */

/* ---------- per-case result reporting (one JSON line per case on stdout) ---------- */
void res_begin(long caseid);
void res_eval(long n);                              /* oracle evaluations */
void res_bucket(const char *fmt, ...);              /* a distinct non-trivial bucket observed */
void res_viol(const char *prop, const char *key, const char *fmt, ...);
void res_count(const char *name, long n);           /* named counter */
void res_metric(const char *name, double v);        /* named real-valued observation; the orchestrator keeps min/max */
void res_sample(const char *fmt, ...);              /* free-form description of the case (JSON string content) */
void res_end(void);
int  res_nviol(void);

/* ---------- misc ---------- */
void vh_set_cpu_budget(int seconds);                /* ITIMER_VIRTUAL -> "@cpu" + _exit(75) */
void vh_dump(const char *name, const void *p, size_t n); /* to $VH_DUMP dir if set */
extern long vh_cur_case;
extern int vh_trace;  /* $VH_TRACE set: drivers narrate ops on stderr */
#define VH_MIN(a,b) ((a)<(b)?(a):(b))
#define VH_MAX(a,b) ((a)>(b)?(a):(b))

/* driver command line: <mode> <seed> <tier> <first> <count> */
typedef struct { const char *mode; uint64_t seed; int thorough; long first, count; } drvargs_t;
int drv_parse(int argc, char **argv, drvargs_t *a);

#endif
