/* Packet-level monitors: C02 (arbitrary packets x arbitrary call orders under sanitizers and budgets),
   C11 (a disturbance at packet k leaves packets >= k+2 bit-identical), C13 (clear functions release everything). */
#define _GNU_SOURCE
#include "common.h"
#include "spec.h"
#include <math.h>
#include <errno.h>
extern size_t __sanitizer_get_current_allocated_bytes(void) __attribute__((weak));   /* provided by the ASan runtime; absent in the uninstrumented build */

static int code_ok(long r){ return r>=0 || r==OV_FALSE || r==OV_EOF || r==OV_HOLE || (r<=OV_EREAD && r>=OV_ENOSEEK); }

/* ------------------------------------------------------------------ packet mutation */
typedef struct { unsigned char *p; long n; } bytes_t;
static bytes_t bytes_dup(const unsigned char *p,long n){ bytes_t b; b.n=n; b.p=malloc(n>0?n:1); if(n>0)memcpy(b.p,p,n); return b; }
static const char *mutname[]={"none","bitflip","byteset","truncate","extend","splice","zero-run","ff-run","random","interesting"};
#define MUT_KINDS 10
static bytes_t mutate(rng_t *r,const unsigned char *p,long n,int kind,const unsigned char *other,long on){
  bytes_t b=bytes_dup(p,n);
  if(n<=0 && kind!=8 && kind!=4) return b;
  switch(kind){
  case 1: { int k=(int)rng_range(r,1,8); for(int i=0;i<k;i++){ long pos=rng_range(r,0,n*8-1); b.p[pos>>3]^=1<<(pos&7); } } break;
  case 2: { int k=(int)rng_range(r,1,4); for(int i=0;i<k;i++){ static const unsigned char iv[]={0,1,0x7f,0x80,0xff,0xfe,0x40,0x3f}; b.p[rng_range(r,0,n-1)]= rng_chance(r,0.5)?iv[rng_below(r,8)]:(unsigned char)rng_next(r); } } break;
  case 3: b.n=rng_range(r,0,n-1); break;
  case 4: { long add=rng_range(r,1,64); b.p=realloc(b.p,n+add); for(long i=0;i<add;i++) b.p[n+i]=(unsigned char)rng_next(r); b.n=n+add; } break;
  case 5: if(other&&on>0){ long at=rng_range(r,0,n-1), len=rng_range(r,1,VH_MIN(on,n-at)); long from=rng_range(r,0,on-len); memcpy(b.p+at,other+from,len); } break;
  case 6: { long at=rng_range(r,0,n-1), len=rng_range(r,1,VH_MIN(32,n-at)); memset(b.p+at,0,len); } break;
  case 7: { long at=rng_range(r,0,n-1), len=rng_range(r,1,VH_MIN(32,n-at)); memset(b.p+at,0xff,len); } break;
  case 8: { long len=rng_range(r,0,n>0?2*n:64); free(b.p); b.p=malloc(len>0?len:1); b.n=len; for(long i=0;i<len;i++) b.p[i]=(unsigned char)rng_next(r); if(len>7 && rng_chance(r,0.7)){ b.p[0]=(unsigned char)(rng_chance(r,0.8)?(1+2*rng_below(r,3)):rng_next(r)); memcpy(b.p+1,"vorbis",6); } } break;
  case 9: { /* keep the 7-byte header tag, perturb a window early in the body where the counts and sizes live */
      long lo=n>7?7:0, hi=lo+rng_range(r,1,120); if(hi>n-1) hi=n-1; int k=(int)rng_range(r,1,3);
      for(int i=0;i<k;i++){ long pos=rng_range(r,lo*8,hi*8+7); b.p[pos>>3]^=1<<(pos&7); } } break;
  default: break;
  }
  return b;
}

/* ------------------------------------------------------------------ C02 */
typedef struct {
  vorbis_info vi; vorbis_comment vc; vorbis_dsp_state vd; vorbis_block vb;
  int info_live, dsp_live, blk_live, syn_ok;
  int lap_ok;   /* a real block went in since the last restart/trackonly/lapout: the state vorbisfile calls lapout in */
} dec_t;
static void op_from(ogg_packet *op,const bytes_t *b,rng_t *r,long *pno,int wild){
  memset(op,0,sizeof *op); op->packet=b->p; op->bytes=b->n;
  op->packetno=(*pno)++;
  op->granulepos=-1;
  if(wild){
    if(rng_chance(r,0.3)) op->b_o_s=1;
    if(rng_chance(r,0.15)) op->e_o_s=1;
    int g=(int)rng_below(r,6); op->granulepos= g==0?-1: g==1?0: g==2?(ogg_int64_t)rng_range(r,0,100000): g==3?-(ogg_int64_t)rng_range(r,2,100000): g==4?0x7fffffffffffffffLL:(ogg_int64_t)(rng_next(r));
    if(rng_chance(r,0.2)) op->packetno=(ogg_int64_t)rng_range(r,-3,1000);
  }
}
static void drain(dec_t *d){
  float **pcm; int n; int guard=0;
  while((n=vorbis_synthesis_pcmout(&d->vd,&pcm))>0 && guard++<64){
    volatile float acc=0; for(int c=0;c<d->vi.channels;c++){ acc+=pcm[c][0]; acc+=pcm[c][n-1]; } (void)acc;
    int rr=vorbis_synthesis_read(&d->vd,n); if(rr) res_viol("C02","read-of-available-samples-refused","%d for %d samples",rr,n);
  }
  if(n<0) res_viol("C02","pcmout-negative","%d",n);
}
/* run a call history over the three header candidates and the audio list */
static void c02_history(rng_t *r,bytes_t hdr[3],bytes_t *aud,int naud,int ncalls,const char *desc){
  dec_t d; memset(&d,0,sizeof d); long pno=0; int hdr_done=0; long accepted_audio=0,rejected_audio=0;
  vorbis_info_init(&d.vi); vorbis_comment_init(&d.vc); d.info_live=1;
  for(int c=0;c<ncalls;c++){
    int o=(int)rng_below(r,100); ogg_packet op; long ret=0;
    if(d.dsp_live && d.info_live && d.vi.codec_setup && rng_chance(r,0.04)){ /* the flag may be flipped under a live decoder (the call is accepted): whatever comes out, nothing may be accessed out of bounds */
      int hr=vorbis_synthesis_halfrate(&d.vi,(int)rng_below(r,2)); if(hr!=0&&hr!=-1) res_viol("C02","return-domain","halfrate %d",hr); res_count("halfrate_flips_under_a_live_decoder",1); d.lap_ok=0; }
    if(hdr_done<3 && o<55) o=0;              /* bias: get through the headers first, most of the time */
    if(hdr_done>=3 && d.dsp_live && o<70) o=40;
    if(hdr_done>=3 && !d.dsp_live && o<60) o=20;
    if(o<12){
      /* headerin: next header in order (mostly), or any packet */
      const bytes_t *b= rng_chance(r,0.85)?&hdr[hdr_done<3?hdr_done:rng_below(r,3)]:(rng_chance(r,0.5)||!naud?&hdr[rng_below(r,3)]:&aud[rng_below(r,naud)]);
      op_from(&op,b,r,&pno,rng_chance(r,0.2)); if(b==&hdr[0] && rng_chance(r,0.9)) op.b_o_s=1;
      ret=vorbis_synthesis_headerin(&d.vi,&d.vc,&op); res_count(ret?"headerin_rejected":"headerin_accepted",1);
      if(ret==0 && hdr_done<3) hdr_done++;
      if(ret>0) res_viol("C02","return-domain","headerin returned %ld",ret);
    }else if(o<16){
      const bytes_t *b=&hdr[rng_below(r,3)]; op_from(&op,b,r,&pno,1); ret=vorbis_synthesis_idheader(&op); if(ret!=0&&ret!=1) res_viol("C02","return-domain","idheader %ld",ret); ret=0;
    }else if(o<20){
      if(d.info_live && d.vi.codec_setup){ const bytes_t *b=naud?&aud[rng_below(r,naud)]:&hdr[2]; op_from(&op,b,r,&pno,0); ret=vorbis_packet_blocksize(&d.vi,&op); if(ret>8192) res_viol("C02","return-domain","packet_blocksize %ld",ret); if(ret>0)ret=0;
        int b0=vorbis_info_blocksize(&d.vi,0),b1=vorbis_info_blocksize(&d.vi,1); if(b0>8192||b1>8192||b0<-1||b1<-1) res_viol("C02","return-domain","info_blocksize %d %d",b0,b1); }
    }else if(o<30){
      if(!d.dsp_live && d.info_live){
        if(d.vi.codec_setup && rng_chance(r,0.2)){ int hr=vorbis_synthesis_halfrate(&d.vi,(int)rng_below(r,2)); if(hr!=0&&hr!=-1) res_viol("C02","return-domain","halfrate %d",hr); (void)vorbis_synthesis_halfrate_p(&d.vi); }
        ret=vorbis_synthesis_init(&d.vd,&d.vi);
        d.lap_ok=0;
        if(ret==0){ d.dsp_live=1; if(vorbis_block_init(&d.vd,&d.vb)==0) d.blk_live=1; res_count("synthesis_init_ok",1); }
        if(ret!=0){ res_count("synthesis_init_refused",1); if(ret!=1 && !code_ok(ret)) res_viol("C02","return-domain","synthesis_init %ld",ret); ret=0; }
        d.syn_ok=0;
      }
    }else if(o<72){
      if(d.dsp_live && d.blk_live){
        const bytes_t *b; int pick=(int)rng_below(r,100);
        if(naud && pick<88) b=&aud[rng_below(r,naud)]; else b=&hdr[rng_below(r,3)];
        op_from(&op,b,r,&pno,rng_chance(r,0.3));
        if(rng_chance(r,0.15)){ ret=vorbis_synthesis_trackonly(&d.vb,&op); }
        else ret=vorbis_synthesis(&d.vb,&op);
        d.syn_ok=(ret==0);
        if(ret==0) accepted_audio++; else rejected_audio++;
        if(ret>0) res_viol("C02","return-domain","synthesis returned %ld",ret);
        if(ret==0 && rng_chance(r,0.92)){
          /* blockin needs the previous output consumed first (documented idiom) */
          if(rng_chance(r,0.9)) drain(&d);
          long rb=vorbis_synthesis_blockin(&d.vd,&d.vb); if(rb!=0 && rb!=OV_EINVAL) res_viol("C02","return-domain","blockin %ld",rb);
          d.syn_ok=0; d.lap_ok= (rb==0 && d.vb.pcm!=NULL);
          if(rng_chance(r,0.8)) drain(&d);
        }
      }
    }else if(o<78){
      if(d.dsp_live){ float **pcm; int n=vorbis_synthesis_pcmout(&d.vd,rng_chance(r,0.3)?NULL:&pcm); if(n<0) res_viol("C02","pcmout-negative","%d",n);
        if(n>0){ int k=(int)rng_range(r,0,n); int rr=vorbis_synthesis_read(&d.vd,k); if(rr) res_viol("C02","read-of-available-samples-refused","%d for %d of %d",rr,k,n); }
        else { int k=(int)rng_range(r,0,5000); int rr=vorbis_synthesis_read(&d.vd,k); if(rr!=0 && rr!=OV_EINVAL) res_viol("C02","return-domain","read %d",rr); } }
    }else if(o<82){
      if(d.dsp_live && (d.lap_ok || d.vd.pcm_returned<0)){ float **pcm; int n=vorbis_synthesis_lapout(&d.vd,&pcm); d.lap_ok=0; if(vh_trace) fprintf(stderr,"lapout -> %d\n",n); if(n<0) res_viol("C02","lapout-negative","%d",n); if(n>0){ volatile float acc=0; for(int ch=0;ch<d.vi.channels;ch++){ acc+=pcm[ch][0]; acc+=pcm[ch][n-1]; } (void)acc; } d.syn_ok=0; }
    }else if(o<86){
      if(d.dsp_live){ int rr=vorbis_synthesis_restart(&d.vd); if(rr!=0&&rr!=-1) res_viol("C02","return-domain","restart %d",rr); d.syn_ok=0; d.lap_ok=0; }
    }else if(o<92){
      if(d.blk_live){ vorbis_block_clear(&d.vb); if(rng_chance(r,0.3)) vorbis_block_clear(&d.vb); d.blk_live=0; }
      if(d.dsp_live){ vorbis_dsp_clear(&d.vd); if(rng_chance(r,0.3)) vorbis_dsp_clear(&d.vd); d.dsp_live=0; }
      d.syn_ok=0;
    }else if(o<96){
      /* tear everything down and start over (clear functions after any rejection) */
      if(d.blk_live){ vorbis_block_clear(&d.vb); d.blk_live=0; }
      if(d.dsp_live){ vorbis_dsp_clear(&d.vd); d.dsp_live=0; }
      vorbis_comment_clear(&d.vc); vorbis_info_clear(&d.vi); if(rng_chance(r,0.4)){ vorbis_comment_clear(&d.vc); vorbis_info_clear(&d.vi); }
      vorbis_info_init(&d.vi); vorbis_comment_init(&d.vc); hdr_done=0; d.syn_ok=0;
    }else{
      if(d.dsp_live && d.blk_live && !d.syn_ok && rng_chance(r,0.5)){ vorbis_block_clear(&d.vb); vorbis_block_init(&d.vd,&d.vb); }
    }
    res_eval(1);
    if(vh_trace) fprintf(stderr,"op %d class %d ret %ld | dsp %d W %ld lW %ld centerW %ld cur %d ret %d hdr %d\n",c,o,ret,d.dsp_live,d.dsp_live?d.vd.W:-1,d.dsp_live?d.vd.lW:-1,d.dsp_live?d.vd.centerW:-1,d.dsp_live?d.vd.pcm_current:-1,d.dsp_live?d.vd.pcm_returned:-1,hdr_done);
    if(!code_ok(ret)) res_viol("C02","return-domain","call class %d returned %ld: %s",o,ret,desc);
  }
  if(d.blk_live) vorbis_block_clear(&d.vb);
  if(d.dsp_live) vorbis_dsp_clear(&d.vd);
  vorbis_comment_clear(&d.vc); vorbis_info_clear(&d.vi);
  vorbis_block_clear(&d.vb); vorbis_dsp_clear(&d.vd); vorbis_comment_clear(&d.vc); vorbis_info_clear(&d.vi);
  res_count("audio_calls_accepted",accepted_audio); res_count("audio_calls_rejected",rejected_audio);
}
static void small_enc_cfg(rng_t *r,enccfg_t *c,long maxN){
  enccfg_default(c);
  static const long rates[]={8000,11025,16000,22050,32000,44100,48000,96000};
  c->rate=rates[rng_below(r,8)]; c->channels= rng_chance(r,0.1)?(int)rng_range(r,3,8):(rng_chance(r,0.5)?1:2);
  c->quality=(float)(-0.1+1.1*rng_unit(r));
  if(rng_chance(r,0.15)){ c->mode=ENC_MANAGED; c->br_nom=(long)(c->rate*c->channels*(0.9+rng_unit(r))); }
  static const int sigs[]={SIG_MULTI,SIG_NOISE,SIG_CLICKS,SIG_BURSTS,SIG_SWEEP,SIG_OVER,SIG_IMPULSE,SIG_SILENCE};
  c->sig=sigs[rng_below(r,8)]; c->sigseed=rng_next(r); c->nsamples=rng_range(r,maxN/4,maxN); c->chunk=CHUNK_RANDOM;
}
static void case_c02(const drvargs_t *a,long id){
  rng_t r; rng_seed(&r,a->seed,2,(uint64_t)id);
  res_begin(id);
  char desc[400]; bytes_t hdr[3]; bytes_t *aud=NULL; int naud=0; int src=(int)(id%4);
  pktlist_t pk; pktlist_init(&pk); int havepk=0;
  if(src==3){
    /* crafted stream from the Vorbis I model (features the bundled encoder never emits) */
    sp_setup *S=sp_gen_setup(&r,(int)rng_below(&r,SP_NPROFILES),a->thorough?2:1);
    int np=(int)rng_range(&r,4,12); sp_gen_stream(&r,S,np,&pk,0); sp_free_setup(S); havepk=1;
    snprintf(desc,sizeof desc,"model-made stream, %d packets",np);
  }
  if(!havepk){
    enccfg_t c; small_enc_cfg(&r,&c,a->thorough?12000:6000); encres_t er;
    enccfg_json(&c,desc,sizeof desc);
    if(enc_run(&c,&er)){ res_count("setups_refused",1); encres_free(&er); res_end(); return; }
    pk=er.pk; havepk=1;
  }
  /* header mutations */
  int hm=(int)rng_below(&r,100); int which=(int)rng_below(&r,100); which= which<70?2: which<85?0:1; int kind=0;
  for(int i=0;i<3;i++) hdr[i]=bytes_dup(pk.v[i].data,pk.v[i].bytes);
  if(hm<75){
    kind= hm<30?9: 1+(int)rng_below(&r,MUT_KINDS-1);
    int rounds= rng_chance(&r,0.25)?2:1;
    for(int k=0;k<rounds;k++){ bytes_t m=mutate(&r,hdr[which].p,hdr[which].n,kind,pk.v[(which+1)%3].data,pk.v[(which+1)%3].bytes); free(hdr[which].p); hdr[which]=m; if(k==0&&rounds==2){ which=(int)rng_below(&r,3); kind=1+(int)rng_below(&r,MUT_KINDS-1);} }
  }
  if(rng_chance(&r,0.05)){ bytes_t t=hdr[1]; hdr[1]=hdr[2]; hdr[2]=t; }
  /* audio candidates: valid, truncated at every class of length, noisy, foreign */
  naud=pk.n-3; if(naud>60) naud=60; if(naud<0) naud=0;
  aud=calloc(naud+1,sizeof *aud); int am=(int)rng_below(&r,100);
  for(int i=0;i<naud;i++){
    const pkt_t *p=&pk.v[3+i]; int k=0;
    if(am<35) k=0; else if(am<60) k= rng_chance(&r,0.5)?3:1; else k=(int)rng_below(&r,MUT_KINDS);
    if(rng_chance(&r,0.5)) k=0;
    aud[i]=mutate(&r,p->data,p->bytes,k,pk.v[2].data,pk.v[2].bytes);
  }
  size_t dl=strlen(desc); snprintf(desc+dl,sizeof desc-dl," | hdr%d:%s audio-mode %d",which,mutname[kind],am);
  int nh= a->thorough?3:2;
  for(int h=0;h<nh;h++) c02_history(&r,hdr,aud,naud,(int)rng_range(&r,20,200),desc);
  res_bucket("src%s|hdr%d:%s|aud%s",src==3?"model":"enc",which,mutname[kind],am<35?"valid":am<60?"trunc/flip":"mixed");
  res_sample("%s",desc);
  for(int i=0;i<3;i++) free(hdr[i].p);
  for(int i=0;i<naud;i++) free(aud[i].p);
  free(aud); pktlist_free(&pk);
  res_end();
}
/* field-boundary setups from the model: one or two fields of a valid setup forced to boundary values, re-packed */
static void case_c02f(const drvargs_t *a,long id){
  rng_t r; rng_seed(&r,a->seed,22,(uint64_t)id);
  res_begin(id);
  char desc[500]; pktlist_t pk; pktlist_init(&pk);
  sp_setup *S=sp_gen_setup(&r,(int)(id%SP_NPROFILES),1);
  int np=(int)rng_range(&r,3,8);
  sp_gen_stream(&r,S,np,&pk,0);         /* valid packets under the unmodified setup */
  char what[300]; what[0]=0;
  int nmut= rng_chance(&r,0.25)?2:1;
  for(int k=0;k<nmut;k++){ size_t l=strlen(what); sp_mutate_field(&r,S,what+l,sizeof what-l); }
  /* re-pack the three headers from the mutated model */
  buf_t h[3]; for(int i=0;i<3;i++) buf_init(&h[i]);
  sp_write_headers(S,&h[0],&h[1],&h[2]);
  bytes_t hdr[3]; for(int i=0;i<3;i++){ hdr[i]=bytes_dup(h[i].p,h[i].n); buf_free(&h[i]); }
  if(rng_chance(&r,0.15)){ /* truncate the setup header at a random bit-ish position */ hdr[2].n=rng_range(&r,7,hdr[2].n); }
  int naud=pk.n-3; bytes_t *aud=calloc(naud+1,sizeof *aud);
  for(int i=0;i<naud;i++){ int kd= rng_chance(&r,0.6)?0:(int)rng_below(&r,MUT_KINDS); aud[i]=mutate(&r,pk.v[3+i].data,pk.v[3+i].bytes,kd,pk.v[2].data,pk.v[2].bytes); }
  snprintf(desc,sizeof desc,"model setup profile %d, fields forced:%s",(int)(id%SP_NPROFILES),what);
  for(int hrun=0;hrun<2;hrun++) c02_history(&r,hdr,aud,naud,(int)rng_range(&r,15,80),desc);
  res_bucket("field|%s",sp_last_field_class());
  res_sample("%s",desc);
  for(int i=0;i<3;i++) free(hdr[i].p);
  for(int i=0;i<naud;i++) free(aud[i].p);
  free(aud); pktlist_free(&pk); sp_free_setup(S);
  res_end();
}

/* ------------------------------------------------------------------ C02, lattice size law (mode c02q, round 8) */
/* The number of scalar values of a lattice (lookup type 1) codebook is the greatest v with v^dim <= entries.  libvorbis finds it from a floating-point estimate that it
   then corrects by stepping up or down in a loop; for entry counts at and next to perfect powers the estimate is off by one and the correction has to terminate and land
   on the right side.  Part A asks the library's own routine for every (dim, k^dim+d), d in -2..2, k^dim < 2^24 (dim 1 and dim > 24 sampled) and compares with the
   model's integer answer; part B puts such books into real setup headers and runs them through headerin / synthesis_init / clear. */
#include <stdarg.h>
#include "codebook.h"
static void q_mark(const char *fmt,...){ char t[200]; va_list ap; va_start(ap,fmt); vsnprintf(t,sizeof t,fmt,ap); va_end(ap); printf("@ctx %s\n",t); fflush(stdout); }
static void case_c02q(const drvargs_t *a,long id){
  rng_t r; rng_seed(&r,a->seed,23,(uint64_t)id);
  res_begin(id);
  int dim= (int)(id%26)+1; if(dim==26) dim=(int)rng_range(&r,26,65535);
  static_codebook sb; memset(&sb,0,sizeof sb); sb.dim=dim; long ncalls=0, bad=0;
  if(dim==1 || dim>24){
    for(int i=0;i<4000;i++){ long e= i<8? (long[]){1,2,3,(1L<<24)-1,(1L<<24)-2,(1L<<23),255,256}[i] : (long)rng_range(&r,1,(1L<<24)-1); sb.entries=e;
      if(i%256==0) q_mark("lattice size dim %d entries %ld",dim,e);
      long v=_book_maptype1_quantvals(&sb), w=sp_lookup1_values(e,dim); ncalls++; if(v!=w && bad++<3) res_viol("C01","lattice-size-law","dim %d entries %ld: library %ld, specification %ld",dim,e,v,w); }
  }else{
    for(long k=1;;k++){ double pw=1; for(int i=0;i<dim;i++) pw*=(double)k; if(pw>=(double)(1L<<24)+2) break; long base=(long)pw;
      if(k%32==1) q_mark("lattice size dim %d entries near %ld^%d",dim,k,dim);
      for(int d=-2;d<=2;d++){ long e=base+d; if(e<1||e>=(1L<<24)) continue; sb.entries=e;
        long v=_book_maptype1_quantvals(&sb), w=sp_lookup1_values(e,dim); ncalls++; if(v!=w && bad++<3) res_viol("C01","lattice-size-law","dim %d entries %ld (%ld^%d%+d): library %ld, specification %ld",dim,e,k,dim,d,v,w); } }
  }
  res_eval(ncalls); res_count("lattice_sizes_asked_of_the_library",ncalls);
  /* part B: the same kind of book inside a setup header */
  int nprobe= a->thorough?10:5;
  for(int q=0;q<nprobe;q++){
    int d2= dim<=24? dim : (int)rng_range(&r,2,12); if(d2==1) d2=(int)rng_range(&r,2,9);
    long kmax=1; for(;;){ double pw=1; for(int i=0;i<d2;i++) pw*=(double)(kmax+1); if(pw>=(double)(1L<<24)) break; kmax++; }
    long k=(long)rng_range(&r,1,kmax); double pw=1; for(int i=0;i<d2;i++) pw*=(double)k; long e=(long)pw+(long)rng_range(&r,-1,1); if(e<1) e=1; if(e>=(1L<<24)) e=(1L<<24)-1;
    sp_setup *S=sp_gen_setup(&r,(int)((id+q)%SP_NPROFILES),0); sp_book_make_lattice(&S->books[0],d2,e);
    buf_t h[3]; for(int i=0;i<3;i++) buf_init(&h[i]); sp_write_headers(S,&h[0],&h[1],&h[2]);
    vorbis_info vi; vorbis_comment vc; vorbis_info_init(&vi); vorbis_comment_init(&vc); long ret=0;
    q_mark("headerin: setup header with a lattice book dim %d entries %ld (%ld^%d%+ld)",d2,e,k,d2,e-(long)pw);
    for(int i=0;i<3 && ret==0;i++){ ogg_packet op; memset(&op,0,sizeof op); op.packet=h[i].p; op.bytes=(long)h[i].n; op.b_o_s=(i==0); op.packetno=i; ret=vorbis_synthesis_headerin(&vi,&vc,&op); res_eval(1);
      if(!code_ok(ret)||ret>0) res_viol("C02","return-domain","headerin %ld for a lattice book dim %d entries %ld",ret,d2,e); }
    res_count(ret?"lattice_headers_refused":"lattice_headers_accepted",1);
    if(ret==0 && e<=(1L<<18)){ vorbis_dsp_state vd; q_mark("synthesis_init: lattice book dim %d entries %ld",d2,e); long ri=vorbis_synthesis_init(&vd,&vi); res_eval(1);
      if(ri!=0 && ri!=1 && !code_ok(ri)) res_viol("C02","return-domain","synthesis_init %ld for a lattice book dim %d entries %ld",ri,d2,e);
      if(ri==0) vorbis_dsp_clear(&vd); }
    vorbis_comment_clear(&vc); vorbis_info_clear(&vi); vorbis_info_clear(&vi);
    for(int i=0;i<3;i++) buf_free(&h[i]); sp_free_setup(S);
  }
  if(!res_nviol()) res_bucket("lattice|dim%d",dim<=24?dim:25);
  res_end();
}

/* ------------------------------------------------------------------ C11 */
typedef struct { long n; uint64_t h; int retried; } pkout_t;
/* decode packets [from,to) of list with disturbance; out[j] = what packet j's blockin made available */
typedef struct { int kind; int k; int arg; uint64_t seed; int pagegran; ogg_int64_t goff; } dist_t;   /* goff: added to every granule position (a stream cut out of a very long one) */
static const char *distname[]={"none","drop","duplicate","truncate","bitflip","random-bytes","header-as-audio","restart-before","fresh-decoder-at","trackonly","zero-length","early-blockin-refused-then-retried","restart-before-renumbered-from-0"};
#define DIST_KINDS 13
static int c11_decode(const pktlist_t *pk,const dist_t *D,pkout_t *out,int *chn){
  vorbis_info vi; vorbis_comment vc; vorbis_dsp_state vd; vorbis_block vb; ogg_packet op; rng_t r; rng_seed(&r,D->seed,0x11,(uint64_t)D->k);
  vorbis_info_init(&vi); vorbis_comment_init(&vc);
  for(int i=0;i<3;i++){ pkt_to_ogg(&pk->v[i],&op); if(vorbis_synthesis_headerin(&vi,&vc,&op)<0){ vorbis_comment_clear(&vc); vorbis_info_clear(&vi); return -1; } }
  *chn=vi.channels;
  if(vorbis_synthesis_init(&vd,&vi)){ vorbis_comment_clear(&vc); vorbis_info_clear(&vi); return -2; }
  vorbis_block_init(&vd,&vb);
  int na=pk->n-3;
  for(int j=0;j<na;j++){ out[j].n=-1; out[j].h=0; out[j].retried=0; }
  for(int j=(D->kind==8?D->k:0);j<na;j++){
    pkt_t P=pk->v[3+j]; unsigned char *tmp=NULL; int reps=1; int track=0;
    if(D->pagegran && !P.e_o_s && (j%D->pagegran)!=D->pagegran-1) P.granulepos=-1;   /* per-page granule convention */
    if(P.granulepos>=0) P.granulepos+=D->goff;
    if(j==D->k){
      switch(D->kind){
      case 1: continue;
      case 2: reps=2; break;
      case 3: P.bytes= D->arg<P.bytes?D->arg:P.bytes/2; break;
      case 4: tmp=malloc(P.bytes>0?P.bytes:1); memcpy(tmp,P.data,P.bytes); for(int f=0;f<D->arg && P.bytes>0;f++){ long pos=rng_range(&r,0,P.bytes*8-1); tmp[pos>>3]^=1<<(pos&7); } P.data=tmp; break;
      case 5: tmp=malloc(P.bytes>0?P.bytes:1); for(long q=0;q<P.bytes;q++) tmp[q]=(unsigned char)rng_next(&r); if(P.bytes>0) tmp[0]&=0xfe; P.data=tmp; break;
      case 6: P.data=pk->v[D->arg%3].data; P.bytes=pk->v[D->arg%3].bytes; break;
      case 7: vorbis_synthesis_restart(&vd); break;
      case 9: track=1; break;
      case 10: P.bytes=0; break;
      case 12: vorbis_synthesis_restart(&vd); break;
      default: break;
      }
    }
    if(D->kind==12 && j>=D->k) P.packetno=j-D->k;     /* libogg numbers packets from 0 again after a stream reset (what every vorbisfile seek does) */
    int hold=(D->kind==11 && j==D->k-1);              /* leave packet k-1's output undrained, so that the blockin of packet k comes too early */
    for(int rep=0;rep<reps;rep++){
      pkt_to_ogg(&P,&op);
      int rs= track?vorbis_synthesis_trackonly(&vb,&op):vorbis_synthesis(&vb,&op);
      float **pcm; int n; long tot=0; uint64_t h=0;
      if(rs==0){ int br=vorbis_synthesis_blockin(&vd,&vb);
        if(D->kind==11 && j==D->k && br==OV_EINVAL && j>0){ /* refused (output pending): a refused block must change nothing - drain what belongs to packet k-1, then submit the same block again */
          long t1=0; uint64_t h1=0; while((n=vorbis_synthesis_pcmout(&vd,&pcm))>0){ for(int c=0;c<vi.channels;c++) h1=fnv1a(pcm[c],sizeof(float)*n,h1); t1+=n; vorbis_synthesis_read(&vd,n); }
          out[j-1].n=t1; out[j-1].h=h1; out[j].retried=1;
          if(vorbis_synthesis_blockin(&vd,&vb)) out[j].retried=2; } }
      if(hold){ out[j].n=0; out[j].h=0; continue; }
      while((n=vorbis_synthesis_pcmout(&vd,&pcm))>0){ for(int c=0;c<vi.channels;c++) h=fnv1a(pcm[c],sizeof(float)*n,h); tot+=n; vorbis_synthesis_read(&vd,n); }
      out[j].n=(rep==0?0:out[j].n)+tot; out[j].h= rep==0?h:out[j].h*31+h;
      if(rep==0 && reps==2){ /* the duplicate's own output is part of the disturbance; record only the second pass for index k */ }
    }
    free(tmp);
  }
  vorbis_block_clear(&vb); vorbis_dsp_clear(&vd); vorbis_comment_clear(&vc); vorbis_info_clear(&vi);
  return 0;
}
static void case_c11(const drvargs_t *a,long id){
  rng_t r; rng_seed(&r,a->seed,11,(uint64_t)id);
  res_begin(id);
  char desc[300]; pktlist_t pk; int model=(id%5==4);
  if(model){
    pktlist_init(&pk); sp_setup *S=sp_gen_setup(&r,(int)rng_below(&r,SP_NPROFILES),1);
    sp_gen_stream(&r,S,(int)rng_range(&r,20,60),&pk,1); sp_free_setup(S); snprintf(desc,sizeof desc,"model-made stream, %d packets",pk.n-3);
  } else {
    enccfg_t c; small_enc_cfg(&r,&c,a->thorough?40000:16000); if(rng_chance(&r,0.5)) c.sig= rng_chance(&r,0.5)?SIG_CLICKS:SIG_BURSTS; /* many block-size transitions */
    encres_t er; enccfg_json(&c,desc,sizeof desc);
    if(enc_run(&c,&er)){ res_count("setups_refused",1); encres_free(&er); res_end(); return; }
    pk=er.pk;
  }
  int na=pk.n-3; if(na<6){ pktlist_free(&pk); res_end(); return; }
  pkout_t *clean=malloc(sizeof(pkout_t)*na), *dis=malloc(sizeof(pkout_t)*na); int ch=0;
  for(int conv=0;conv<2;conv++){
    static const ogg_int64_t goffs[]={0,0,0,(ogg_int64_t)3<<30,((ogg_int64_t)1<<31)-700,(ogg_int64_t)1<<40,((ogg_int64_t)1<<32)-300};
    ogg_int64_t goff=goffs[(id/5)%7]; if(goff) res_count("streams_with_granule_positions_beyond_2_to_31",1);
    dist_t D0={0,-1,0,0,conv?(int)rng_range(&r,2,9):0,goff};
    if(c11_decode(&pk,&D0,clean,&ch)){ res_viol("C05","header-rejected","%s",desc); break; }
    int nk= a->thorough?na:VH_MIN(na,24);
    for(int q=0;q<nk;q++){
      int k= a->thorough?q:(int)rng_below(&r,na);
      if(q==nk-1) k=na-1-(int)rng_below(&r,VH_MIN(na,4));      /* always probe the tail */
      int kind=1+(int)rng_below(&r,DIST_KINDS-1);
      dist_t D={kind,k,0,rng_next(&r),D0.pagegran,goff};
      if(kind==3){ long b=pk.v[3+k].bytes; static const int fr[]={0,1,2,8,50}; int f=fr[rng_below(&r,5)]; D.arg= f<=2?f:(int)(b*f/100); }
      if(kind==4) D.arg=(int)rng_range(&r,1,8);
      if(kind==6) D.arg=(int)rng_below(&r,3);
      if(c11_decode(&pk,&D,dis,&ch)) { res_viol("C11","harness-decode-failed","%s",desc); break; }
      res_eval(1);
      int bad=-1;
      if(kind==11){ /* nothing may change at all: the refused call is not a disturbance of the stream */
        if(k>0 && dis[k].retried==2) res_viol("C11","retried-blockin-refused","packet %d: blockin refused (output pending), drained, submitted again and refused again: %s",k,desc);
        if(k>0 && dis[k].retried) res_count("early_blockins_refused_and_retried",1);
        for(int j=0;j<na;j++) if(clean[j].n!=dis[j].n || clean[j].h!=dis[j].h){ bad=j; break; }
        if(bad>=0){ res_viol("C11","refused-blockin-changed-the-decode","blockin of packet %d refused while output was pending, then retried: packet %d yields %ld samples (clean %ld) or other values: %s",k,bad,dis[bad].n,clean[bad].n,desc); continue; }
        res_bucket("%s|%s|%s|%s",distname[kind],k<2?"head":k>=na-3?"tail":"mid",D0.pagegran?"pagegran":"pktgran",model?"model":"enc"); continue; }
      for(int j=k+2;j<na;j++) if(clean[j].n!=dis[j].n || clean[j].h!=dis[j].h){ bad=j; break; }
      if(bad>=0){
        int is_last=(bad==na-1); int cntdiff=(clean[bad].n!=dis[bad].n);
        char key[128];
        /* per-page convention: which packets carry a granule position */
        int first_gran_pkt= D0.pagegran? D0.pagegran-1 : 0;
        int lg=-1; if(D0.pagegran) for(int j=0;j<na-1;j++) if((j%D0.pagegran)==D0.pagegran-1) lg=j;   /* last granule carrier before the final packet */
        if(D0.pagegran && cntdiff && is_last && k>=lg)
          snprintf(key,sizeof key,"per-page-granules:eos-trim-changed-by-discontinuity-inside-final-page");
        else if(D0.pagegran && cntdiff && k<=first_gran_pkt && bad<=first_gran_pkt+1)
          snprintf(key,sizeof key,"per-page-granules:first-granule-after-%s-in-first-page-taken-for-stream-start-trim",(kind==3||kind==4||kind==5)?"accepted-corruption":"sequence-gap");
        else snprintf(key,sizeof key,"%s-at-k+%s%s%s",cntdiff?"count-differs":"samples-differ", bad-k>=4?"4+":(bad-k==2?"2":"3"), is_last?":last-packet":"", D0.pagegran?":per-page-granules":"");
        res_viol("C11",key,"%s of packet %d (of %d): packet %d yields %ld samples (clean %ld)%s: %s",distname[kind],k,na,bad,dis[bad].n,clean[bad].n,D0.pagegran?", per-page granule positions":"",desc);
      } else res_bucket("%s|%s|%s|%s",distname[kind],k<2?"head":k>=na-3?"tail":"mid",D0.pagegran?"pagegran":"pktgran",model?"model":"enc");
    }
  }
  res_sample("%s: %d audio packets, %d channels",desc,na,ch);
  free(clean); free(dis); pktlist_free(&pk);
  res_end();
}

/* ------------------------------------------------------------------ C13 */
static size_t heap_now(void){ return __sanitizer_get_current_allocated_bytes? __sanitizer_get_current_allocated_bytes():0; }
static void c13_judge(size_t base,const char *scn,const char *desc){
  size_t now=heap_now(); res_eval(1);
  if(now!=base) res_viol("C13",scn,"%ld bytes still allocated after the clear calls: %s",(long)now-(long)base,desc);
  else res_bucket("%s",scn);
}
static void c13_encoder(rng_t *r,const drvargs_t *a,long id){
  char desc[300]; static const long rates[]={8000,11025,16000,22050,32000,44100,48000,96000,192000};
  int ch= (int[]){1,2,6,3,2,1,4,8,5}[ (id/3)%9 ]; long rate=rates[(id/27)%9]; int managed=(int)((id/3)%2);
  float q=(float)(-0.1+1.1*rng_unit(r)); int coupling_off=rng_chance(r,0.3); int stage=(int)rng_below(r,7);
  if(rng_chance(r,0.2)){ ch=(int)rng_range(r,-1,300); } if(rng_chance(r,0.1)) rate=rng_range(r,1,250000);
  snprintf(desc,sizeof desc,"encoder ch=%d rate=%ld %s q=%.2f coupling_off=%d stop-stage=%d",ch,rate,managed?"managed":"vbr",q,coupling_off,stage);
  size_t base=heap_now();
  {
    vorbis_info vi; vorbis_comment vc; vorbis_dsp_state vd; vorbis_block vb; int dsp=0,blk=0; memset(&vd,0,sizeof vd); memset(&vb,0,sizeof vb);
    vorbis_info_init(&vi); vorbis_comment_init(&vc);
    int ret= managed? vorbis_encode_setup_managed(&vi,ch,rate,rng_chance(r,0.3)?(long)(rate*1.6*VH_MAX(ch,1)):-1,(long)(rate*1.3*VH_MAX(ch,1)),rng_chance(r,0.3)?(long)(rate*0.8*VH_MAX(ch,1)):-1)
                    : vorbis_encode_setup_vbr(&vi,ch,rate,q);
    const char *scn="enc-setup-refused";
    if(ret==0){
      if(coupling_off){ int z=0; vorbis_encode_ctl(&vi,OV_ECTL_COUPLING_SET,&z); }
      if(rng_chance(r,0.2)){ double lp=rng_range(r,2,30); vorbis_encode_ctl(&vi,OV_ECTL_LOWPASS_SET,&lp); }
      scn="enc-setup-only";
      if(stage>=1){
        ret=vorbis_encode_setup_init(&vi); scn= ret?"enc-setup-init-refused":"enc-setup-init-only";
        if(ret==0 && stage>=2){
          vorbis_analysis_init(&vd,&vi); dsp=1; scn="enc-analysis-init-only";
          if(stage>=3){ vorbis_block_init(&vd,&vb); blk=1; scn="enc-block-init-only"; }
          if(stage>=4){ ogg_packet h1,h2,h3; vorbis_comment_add_tag(&vc,"A","b"); int reps=1+(int)rng_below(r,3); for(int q=0;q<reps;q++) vorbis_analysis_headerout(&vd,&vc,&h1,&h2,&h3); scn= reps>1?"enc-headerout-repeated":"enc-headerout-only"; }
          if(stage>=5){
            long N= stage==5?(long)rng_range(r,0,300):(long)rng_range(r,300,a->thorough?20000:6000); if(ch>16&&N>1500)N=1500; long done=0; ogg_packet op;
            while(done<N){ long n=VH_MIN(N-done,1024); float **b=vorbis_analysis_buffer(&vd,(int)n); for(int c=0;c<ch;c++) for(long i=0;i<n;i++) b[c][i]=sig_sample(SIG_BURSTS,id,c,done+i,rate,N); vorbis_analysis_wrote(&vd,(int)n); done+=n;
              while(vorbis_analysis_blockout(&vd,&vb)==1){ vorbis_analysis(&vb,NULL); vorbis_bitrate_addblock(&vb); while(vorbis_bitrate_flushpacket(&vd,&op)); } }
            if(rng_chance(r,0.7)){ vorbis_analysis_wrote(&vd,0); while(vorbis_analysis_blockout(&vd,&vb)==1){ vorbis_analysis(&vb,NULL); vorbis_bitrate_addblock(&vb); while(vorbis_bitrate_flushpacket(&vd,&op)); } scn="enc-full"; }
            else scn="enc-abandoned-midstream";
          }
        }
      }
    }
    if((id/3)&1){ /* either order of the two clears is in use (vorbisfile itself clears the dsp state first) */
      if(dsp) vorbis_dsp_clear(&vd);
      if(blk) vorbis_block_clear(&vb);
      res_count("encoder_cleared_dsp_before_block",1);
    } else {
    if(blk) vorbis_block_clear(&vb);
    if(dsp) vorbis_dsp_clear(&vd);
    }
    vorbis_comment_clear(&vc); vorbis_info_clear(&vi);
    vorbis_block_clear(&vb); vorbis_dsp_clear(&vd); vorbis_comment_clear(&vc); vorbis_info_clear(&vi);   /* repeatable */
    char s2[64]; snprintf(s2,sizeof s2,"%s|%s|ch%s",scn,managed?"managed":"vbr",ch==1?"1":ch==2?"2":ch==6?"6":"other");
    c13_judge(base,s2,desc);
  }
}
static void c13_decoder(rng_t *r,const drvargs_t *a,long id){
  char desc[300]; pktlist_t pk; int model=(id%4==3);
  int eqbs=0, badbook=0;
  if(model){ pktlist_init(&pk); eqbs=((id/12)%3==1);   /* a third of the model cases (decoder cases are id%3==1, model-made ones id%4==3): both block sizes equal (legal; both lookups of every floor/residue/transform then have the same length), floor 0 preferred */
    sp_setup *S=sp_gen_setup(r,eqbs&&rng_chance(r,0.6)?1:(int)rng_below(r,SP_NPROFILES),1); if(eqbs) S->bs1exp=S->bs0exp;
    sp_gen_stream(r,S,eqbs?14:6,&pk,0);
    if((id/12)%3==2){ /* a set-up that parses but cannot be built: one codeword length shortened so that the tree is over-populated; vorbis_synthesis_init then refuses, and is retried below */
      for(int b=0;b<S->nbooks && !badbook;b++){ sp_book *B=&S->books[b]; if(B->ordered||B->used<3) continue;
        long e=B->used_idx[rng_below(r,(uint32_t)B->used)]; if(B->len[e]>1){ B->len[e]=1; badbook=1; } }
      if(badbook){ buf_t h0,h1,h2; buf_init(&h0); buf_init(&h1); buf_init(&h2); sp_write_headers(S,&h0,&h1,&h2);
        free(pk.v[2].data); pk.v[2].data=malloc(h2.n); memcpy(pk.v[2].data,h2.p,h2.n); pk.v[2].bytes=(long)h2.n; buf_free(&h0); buf_free(&h1); buf_free(&h2); } }
    sp_free_setup(S); snprintf(desc,sizeof desc,"decoder, model-made headers%s%s",eqbs?" (equal block sizes)":"",badbook?" (over-populated codebook)":""); }
  else { enccfg_t c; small_enc_cfg(r,&c,3000); encres_t er; if(enc_run(&c,&er)){ encres_free(&er); return; } pk=er.pk; enccfg_json(&c,desc,sizeof desc); }
  bytes_t hdr[3]; for(int i=0;i<3;i++) hdr[i]=bytes_dup(pk.v[i].data,pk.v[i].bytes);
  int prefix=(int)rng_below(r,4); int corrupt= rng_chance(r,0.6)?(int)rng_below(r,3):-1; int kind=0;
  if(eqbs||badbook){ prefix=3; corrupt=-1; }
  if(corrupt>=0){ kind=1+(int)rng_below(r,MUT_KINDS-1); bytes_t m=mutate(r,hdr[corrupt].p,hdr[corrupt].n,kind,pk.v[2].data,pk.v[2].bytes); free(hdr[corrupt].p); hdr[corrupt]=m; }
  size_t dl=strlen(desc); snprintf(desc+dl,sizeof desc-dl," | prefix %d corrupt hdr %d (%s)",prefix,corrupt,mutname[kind]);
  size_t base=heap_now(); const char *scn="dec-no-headers";
  {
    vorbis_info vi; vorbis_comment vc; vorbis_dsp_state vd; vorbis_block vb; ogg_packet op; int dsp=0,blk=0,okh=0; memset(&vd,0,sizeof vd); memset(&vb,0,sizeof vb);
    vorbis_info_init(&vi); vorbis_comment_init(&vc);
    for(int i=0;i<prefix;i++){ memset(&op,0,sizeof op); op.packet=hdr[i].p; op.bytes=hdr[i].n; op.b_o_s=(i==0); op.packetno=i; int hr=vorbis_synthesis_headerin(&vi,&vc,&op); if(hr){ scn= i==0?"dec-header0-refused":i==1?"dec-header1-refused":"dec-header2-refused"; break; } okh++; }
    if(okh==prefix){
      scn= prefix==0?"dec-no-headers":prefix==1?"dec-1-header":prefix==2?"dec-2-headers":"dec-3-headers";
      if(badbook||rng_chance(r,0.8)){
        if(vorbis_synthesis_init(&vd,&vi)==0){ dsp=1; vorbis_block_init(&vd,&vb); blk=1; scn="dec-init-ok";
          int na=pk.n-3, lim=(int)rng_range(r,0,na);
          if(eqbs) lim=na;
          int wseen=0;
          for(int j=0;j<lim;j++){ pkt_to_ogg(&pk.v[3+j],&op); if(vorbis_synthesis(&vb,&op)==0){ wseen|=1<<(vb.W?1:0); vorbis_synthesis_blockin(&vd,&vb); } float **pcm; int n; while((n=vorbis_synthesis_pcmout(&vd,&pcm))>0) vorbis_synthesis_read(&vd,n); }
          if(lim) scn="dec-decoded-some";
          if(eqbs && wseen==3){ scn="dec-equal-blocksizes-both-flags"; res_count("equal_blocksize_streams_decoded_with_both_flags",1); }
        } else { scn= prefix<3?"dec-init-refused-incomplete":"dec-init-refused";
          /* callers retry (vorbisfile does so on every read): each refused attempt must leave nothing behind for the final clear to miss */
          int again=(int)rng_below(r,4); for(int t=0;t<again;t++){ if(vorbis_synthesis_init(&vd,&vi)==0){ dsp=1; break; } res_count("repeated_refused_decoder_inits",1); }
          if(again && !dsp) scn= prefix<3?"dec-init-refused-repeatedly-incomplete":"dec-init-refused-repeatedly"; }
      }
    }
    if(blk) vorbis_block_clear(&vb);
    if(dsp) vorbis_dsp_clear(&vd);
    vorbis_comment_clear(&vc); vorbis_info_clear(&vi);
    vorbis_block_clear(&vb); vorbis_dsp_clear(&vd); vorbis_comment_clear(&vc); vorbis_info_clear(&vi);
  }
  char s2[64]; snprintf(s2,sizeof s2,"%s|%s",scn,model?"model":"enc");
  c13_judge(base,s2,desc);
  for(int i=0;i<3;i++) free(hdr[i].p);
  pktlist_free(&pk);
}
/* a model-made logical stream whose set-up header parses but holds a codebook with an over-populated codeword tree: vorbisfile opens it (open builds no decoder),
   every attempt to decode it is refused */
static int unbuildable_link(rng_t *r,int serial,buf_t *out){
  sp_setup *S=sp_gen_setup(r,(int)rng_below(r,SP_NPROFILES),1); pktlist_t pk; pktlist_init(&pk); sp_gen_stream(r,S,(int)rng_range(r,4,12),&pk,0); int bad=0;
  for(int b=0;b<S->nbooks && !bad;b++){ sp_book *B=&S->books[b]; if(B->ordered||B->used<3) continue; long e=B->used_idx[rng_below(r,(uint32_t)B->used)]; if(B->len[e]>1){ B->len[e]=1; bad=1; } }
  if(bad){ buf_t h0,h1,h2; buf_init(&h0); buf_init(&h1); buf_init(&h2); sp_write_headers(S,&h0,&h1,&h2);
    free(pk.v[2].data); pk.v[2].data=malloc(h2.n); memcpy(pk.v[2].data,h2.p,h2.n); pk.v[2].bytes=(long)h2.n; buf_free(&h0); buf_free(&h1); buf_free(&h2);
    mux_stream(&pk,serial,PAGE_DEFAULT,0,rng_next(r),out); }
  pktlist_free(&pk); sp_free_setup(S); return bad;
}
static void c13_file(rng_t *r,const drvargs_t *a,long id){
  char desc[700]; chaindesc_t cd; buf_t phys; buf_init(&phys);
  gen_chain(r,4,a->thorough?12000:6000,GC_ALLOW_EMPTY|GC_MULTICH,&cd); chain_describe(&cd,desc,sizeof desc);
  if(build_chain(&cd,&phys,NULL)){ buf_free(&phys); return; }
  /* damage (or not) */
  int dmg=(int)rng_below(r,11); const char *dn="intact";
  if(dmg==1){ phys.n=rng_range(r,0,(long)phys.n); dn="truncated"; }
  else if(dmg==2){ for(int k=0;k<8;k++) phys.p[rng_below(r,(uint32_t)phys.n)]^=(unsigned char)(1<<rng_below(r,8)); dn="bitflips"; }
  else if(dmg==3){ for(size_t i=0;i<phys.n;i++) phys.p[i]=(unsigned char)rng_next(r); dn="garbage"; }
  else if(dmg==4){ long at=rng_range(r,0,(long)phys.n-1); long len=rng_range(r,1,5000); if(len>(long)phys.n-at) len=(long)phys.n-at; memset(phys.p+at,0,len); dn="zeroed-span"; }
  else if(dmg==5){ { size_t cut=(size_t)rng_range(r,28,4000); if(cut<phys.n) phys.n=cut; } dn="headers-cut"; }
  else if(dmg==6||dmg==7){ /* a foreign logical stream's BOS page inserted into the BOS group of a link; for dmg 7 twice (repeated serial number) */
    pageinfo_t *pg=NULL; int np=page_scan(phys.p,phys.n,&pg); int at=-1; int want=(int)rng_below(r,4);
    for(int i=0;i<np;i++) if(pg[i].bos){ at=i; if(want--<=0) break; }
    if(at>=0){
      ogg_stream_state fs; ogg_page fo; ogg_packet fp; unsigned char body[30]; memset(body,0,sizeof body); memcpy(body,"\x80theora",7);
      ogg_stream_init(&fs,(int)rng_next(r)); memset(&fp,0,sizeof fp); fp.packet=body; fp.bytes=sizeof body; fp.b_o_s=1; ogg_stream_packetin(&fs,&fp); 
      buf_t o; buf_init(&o); long ins=pg[at].off+pg[at].len;
      buf_add(&o,phys.p,ins);
      if(ogg_stream_flush(&fs,&fo)){ int reps= dmg==7?2:1; for(int q=0;q<reps;q++){ buf_add(&o,fo.header,fo.header_len); buf_add(&o,fo.body,fo.body_len); } }
      buf_add(&o,phys.p+ins,phys.n-ins); ogg_stream_clear(&fs); buf_free(&phys); phys=o;
    }
    free(pg); dn= dmg==7?"foreign-bos-twice":"foreign-bos";
  }
  else if(dmg==10){ /* cut inside the header pages of a LATER link: the first stage of an open (link 0's headers) succeeds, the second (the scan of the other links) fails */
    pageinfo_t *pg=NULL; int np=page_scan(phys.p,phys.n,&pg); int nb=0; long cut=-1; for(int i=0;i<np;i++) if(pg[i].bos && ++nb==2){ cut= i+1<np? pg[i+1].off+(long)rng_range(r,1,pg[i+1].len>2?pg[i+1].len-1:1) : pg[i].off+pg[i].len; break; }
    free(pg); if(cut>0 && (size_t)cut<phys.n){ phys.n=(size_t)cut; dn="later-link-headers-cut"; } }
  else if(dmg==8){ /* one more link, placed first or last, that opens but can never be decoded (reads and seeks into it are refused again and again) */
    buf_t o; buf_init(&o); int first=rng_chance(r,0.5);
    if(first){ if(unbuildable_link(r,0x7e57ab1e,&o)) dn="unbuildable-link-first"; buf_add(&o,phys.p,phys.n); }
    else { buf_add(&o,phys.p,phys.n); if(unbuildable_link(r,0x7e57ab1e,&o)) dn="unbuildable-link-last"; }
    buf_free(&phys); phys=o; }
  int seekmode= rng_chance(r,0.75)?1:(rng_chance(r,0.5)?0:2);
  int how=(int)rng_below(r,3);  /* 0 open_callbacks, 1 test+test_open, 2 test only (partial open) */
  int fk= rng_chance(r,0.4)?(int)rng_range(r,1,F_NKINDS-1):F_NONE; long fat=rng_range(r,0,60);
  size_t dl=strlen(desc); snprintf(desc+dl,sizeof desc-dl," | %s seekmode %d how %d fault %s@%ld",dn,seekmode,how,fault_name(fk),fat);
  size_t base=heap_now(); char scn[96];
  {
    OggVorbis_File vf; memsrc_t ms; memsrc_init(&ms,phys.p,phys.n,seekmode); if(fk) memsrc_fault(&ms,fk,fat,0);   /* one-shot: persistent faults (and whether calls terminate under them) belong to C12 */
    ms.budget=0;
    int ret= how==0? ov_open_callbacks(&ms,&vf,NULL,0,memsrc_cb(&ms)) : ov_test_callbacks(&ms,&vf,NULL,0,memsrc_cb(&ms));
    int opened=0;
    if(ret==0 && how==1){ ret=ov_test_open(&vf); }
    if(ret==0) opened=1;
    if(ret){
      res_eval(1);
      if(ms.n_close!=0) res_viol("C13","close-called-on-failed-open","close ran %ld times, open returned %d: %s",ms.n_close,ret,desc);
      /* "After a failed open only ov_clear is called" - and it must be harmless */
      if(!(how==1 && ret!=0)) ov_clear(&vf);
      snprintf(scn,sizeof scn,"file-open-failed|%s|how%d|seek%d",dn,how,seekmode);
      if(ms.n_close!=0 && !(how==1)) res_viol("C13","close-called-after-failed-open-clear","close ran %ld times: %s",ms.n_close,desc);
    } else {
      int nops=(int)rng_range(r,0,25); long nfail=0;
      for(int i=0;i<nops && how!=2;i++){
        int o=(int)rng_below(r,8); float **pcm; int bs; ogg_int64_t L=ov_pcm_total(&vf,-1);
        if(vh_trace) fprintf(stderr,"file op %d kind %d | state %d link %d tell %lld | vd: W %ld lW %ld centerW %ld cur %d ret %d\n",i,o,vf.ready_state,vf.current_link,(long long)ov_pcm_tell(&vf),vf.ready_state>=4?vf.vd.W:-1,vf.ready_state>=4?vf.vd.lW:-1,vf.ready_state>=4?vf.vd.centerW:-1,vf.ready_state>=4?vf.vd.pcm_current:-1,vf.ready_state>=4?vf.vd.pcm_returned:-1);
        switch(o){
        case 0: if(ov_pcm_seek(&vf,L>0?rng_range(r,0,(long)L):0)) nfail++; break;
        case 1: if(ov_raw_seek(&vf,rng_range(r,0,(long)phys.n))) nfail++; break;
        case 2: if(ov_time_seek_page(&vf,rng_unit(r)*ov_time_total(&vf,-1))) nfail++; break;
        case 3: ov_halfrate(&vf,(int)rng_below(r,2)); break;
        case 4: if(ov_pcm_seek_lap(&vf,L>0?rng_range(r,0,(long)L):0)) nfail++; break;
        case 5: if(ov_pcm_seek(&vf,L+rng_range(r,1,50))==0) {} else nfail++; break;
        default: { int k=(int)rng_range(r,1,6); for(int j=0;j<k;j++) if(ov_read_float(&vf,&pcm,(int)rng_range(r,1,4096),&bs)<=0){ nfail++; break; } } break;
        }
        if(rng_chance(r,0.15)){ memsrc_clear_fault(&ms);   /* re-arm a one-shot fault a few callbacks ahead, counted on the faulted callback's own counter (round 8: it was counted on the read
                                                                counter for every kind, so seek and tell faults armed here hardly ever fired) */
          if(rng_chance(r,0.6)){ int nk=(int)rng_range(r,1,F_NKINDS-1); long base= nk==F_SEEK_FAIL? ms.n_seek : nk==F_TELL_FAIL? ms.n_tell : ms.n_read;
            memsrc_fault(&ms,nk,base+rng_range(r,0,nk==F_SEEK_FAIL?2:5),0); res_count("faults_rearmed_during_the_script",1); } }
      }
      res_eval(1);
      if(ms.n_close!=0) res_viol("C13","close-before-clear","close ran %ld times before ov_clear: %s",ms.n_close,desc);
      ov_clear(&vf);
      if(ms.n_close!=1) res_viol("C13","close-count","close ran %ld times for a successfully opened handle: %s",ms.n_close,desc);
      snprintf(scn,sizeof scn,"file-%s|%s|seek%d|%s",how==2?"partial-open":"opened",dn,seekmode,nfail?"some-calls-failed":"all-ok");
    }
    ov_clear(&vf);   /* repeatable */
    if(!opened && ms.n_close!=0) res_viol("C13","close-ran-for-a-handle-whose-open-failed","open (how %d) returned %d, yet ov_clear ran the close callback %ld time(s): %s",how,ret,ms.n_close,desc);
    if(ms.n_close>1) res_viol("C13","close-count","second ov_clear closed again (%ld): %s",ms.n_close,desc);
  }
  c13_judge(base,scn,desc);
  buf_free(&phys);
}
static void case_c13(const drvargs_t *a,long id){
  rng_t r; rng_seed(&r,a->seed,13,(uint64_t)id);
  res_begin(id);
  int part=(int)(id%3);
  if(part==0) c13_encoder(&r,a,id); else if(part==1) c13_decoder(&r,a,id); else c13_file(&r,a,id);
  res_sample("part %s",part==0?"encoder":part==1?"decoder":"vorbisfile");
  res_end();
}

int main(int argc,char **argv){
  drvargs_t a; if(drv_parse(argc,argv,&a)) return 2;
  for(long i=a.first;i<a.first+a.count;i++){
    if(!strcmp(a.mode,"c02")) case_c02(&a,i);
    else if(!strcmp(a.mode,"c02f")) case_c02f(&a,i);
    else if(!strcmp(a.mode,"c02q")) case_c02q(&a,i);
    else if(!strcmp(a.mode,"c11")) case_c11(&a,i);
    else if(!strcmp(a.mode,"c13")) case_c13(&a,i);
    else { fprintf(stderr,"unknown mode %s\n",a.mode); return 2; }
  }
  return 0;
}
