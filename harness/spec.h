/* An independent executable model of the Vorbis I format, written from doc/*.tex (sections 2-4, 6-10, A.1),
   not from lib/: bit packing, header model + bit-exact writer, strict parser, random generator of legal set-ups
   and audio packets (a syntax-level random encoder), field-boundary mutator, and a float64 reference decoder
   (Huffman by tree walk, VQ lookup 1/2, floor 0/1, residue 0/1/2, inverse coupling, IMDCT by definition,
   window by formula, overlap-add by absolute position). */
#ifndef VH_SPEC_H
#define VH_SPEC_H
#include "common.h"

#define SP_MAXBOOKS 256
#define SP_NPROFILES 10

typedef struct {
  int dim; long entries;          /* raw header fields (dim 16 bit, entries 24 bit) */
  unsigned char *len;             /* per entry 0 (unused) or 1..32; array of 'nlen' */
  long nlen;
  int ordered, sparse;            /* how the writer encodes the lengths */
  int lookup;                     /* 0,1,2 (raw 4 bit) */
  uint32_t minraw, deltaraw; int value_bits; int sequence_p;
  uint32_t *mult; long nmult;     /* multiplicands as written */
  long nmult_override;            /* <0: write the count the spec implies; else write exactly this many (mutation) */
  /* derived by sp_book_finish() */
  int finished, valid;            /* valid: tree exactly full (or the single-entry erratum) */
  long used; long *used_idx;      /* entry numbers with len>0 */
  uint32_t *cw;                   /* codeword (MSb first) per entry */
  int *child;                     /* trie: child[2*node+bit] = node index or -(entry+2); 0 = absent */
  long nnodes;
  double minval, delta;
} sp_book;

typedef struct {
  int type;
  /* floor 0 */
  int order, rate, barkmap, ampbits, ampdB, nbooks; int books[16];
  /* floor 1 */
  int partitions; int pclass[32]; int nclasses; int cdim[16], csub[16], cbook[16], csubbook[16][8];
  int mult; int rangebits; int X[80]; int nX;
} sp_floor;

typedef struct { int type; long begin, end; long psize; int classes; int classbook; int cascade[64]; int books[64][8]; } sp_residue;

typedef struct { int type; int submaps; int coupling_flag, csteps; int mag[256], ang[256]; int reserved; int mux[256]; int stime[16], sfloor[16], sres[16]; int submap_flag; } sp_mapping;

typedef struct { int blockflag, windowtype, transformtype, mapping; } sp_mode;

typedef struct sp_setup {
  uint32_t version; int channels; uint32_t rate; int32_t br_max, br_nom, br_min; int bs0exp, bs1exp; int id_framing;
  char vendor[64]; int ncomments; char comments[4][64]; int comment_framing;
  int nbooks; sp_book books[SP_MAXBOOKS];
  int ntimes; int times[64];
  int nfloors; sp_floor floors[64];
  int nres; sp_residue res[64];
  int nmaps; sp_mapping maps[64];
  int nmodes; sp_mode modes[64];
  int setup_framing;
  double amp_scale;               /* generator hint: residue value scale */
} sp_setup;

/* ---- construction / destruction ---- */
sp_setup *sp_gen_setup(rng_t *r, int profile, int size_class);   /* a random LEGAL set-up; profile selects the feature stratum */
const char *sp_profile_name(int profile);
void sp_free_setup(sp_setup *S);
void sp_describe(const sp_setup *S, char *out, size_t n);

/* ---- writer ---- */
void sp_book_make_lattice(sp_book *b,int dim,long entries);   /* lookup type 1, valid ordered lengths, the multiplicand count the specification implies */
void sp_write_headers(const sp_setup *S, buf_t *id, buf_t *comment, buf_t *setup);   /* writes whatever the model holds, legal or not */
/* a random valid stream: 3 headers + npackets audio packets with granule positions (per packet), eos on the last.
   flags: 1 = end-trim the last packet (granule short of the full count), 2 = large amplitudes */
void sp_gen_stream(rng_t *r, sp_setup *S, int npackets, pktlist_t *pk, int flags);

/* ---- field-boundary mutation (C02) ---- */
int  sp_mutate_field(rng_t *r, sp_setup *S, char *what, size_t n);
const char *sp_last_field_class(void);

/* ---- strict parser ---- */
/* returns 0 and a model, or <0 with a reason; rejects everything the specification calls undecodable */
int sp_parse_headers(const unsigned char *id, long nid, const unsigned char *com, long ncom, const unsigned char *set, long nset,
                     sp_setup **out, char *err, size_t errn);

/* ---- reference decoder ---- */
typedef struct sp_dec sp_dec;
typedef struct {
  int ok;              /* 0: packet undecodable per spec (not an audio packet / bad mode / ran out before the mode header) */
  int mode, blockflag, prevflag, nextflag; long n;     /* block size */
  long bits_used;      /* bits consumed by a complete decode; if the packet ended early, bits available */
  int eop;             /* ran out of bits inside floor/residue decode */
  long nout;           /* samples per channel finished by this packet (before any granule trimming) */
  double norm;         /* error scale: L2 norm over channels and bins of floor x (sum of magnitudes of every VQ vector added and of
                          every coupling operand) - equals the spectrum norm when nothing cancels */
  double chnorm[256];  /* the same per channel (a channel's samples depend on its own spectrum only once coupling is undone) */
  int nonfinite;       /* spectrum contained non-finite or > 1e30 values */
  int floor0_used;
} sp_pktinfo;
sp_dec *sp_dec_new(const sp_setup *S);
void sp_dec_free(sp_dec *D);
void sp_dec_restart(sp_dec *D);
double **sp_dec_rawblock(sp_dec *D);   /* unwindowed IMDCT output of the last packet (debugging aid; call once before decoding to enable) */
/* decodes one packet; *pcm (if non-NULL) receives pointers to nout finished samples per channel, valid until the next call */
void sp_dec_packet(sp_dec *D, const unsigned char *data, long bytes, sp_pktinfo *info, double ***pcm);

/* helpers shared with drivers */
int    sp_ilog(uint32_t v);
double sp_float32_unpack(uint32_t x);
long   sp_lookup1_values(long entries, int dim);
double sp_window_value(long i, long n, int blockflag, int prevflag, int nextflag, long bs0);

#endif
