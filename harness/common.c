#define _GNU_SOURCE
#include "common.h"
#include <stdarg.h>
#include <math.h>
#include <errno.h>
#include <signal.h>
#include <unistd.h>
#include <sys/time.h>

long vh_cur_case = -1;
int vh_trace = 0;

/* ================= PRNG ================= */
static uint64_t splitmix(uint64_t *x){
  uint64_t z = (*x += 0x9E3779B97F4A7C15ULL);
  z = (z ^ (z >> 30)) * 0xBF58476D1CE4E5B9ULL;
  z = (z ^ (z >> 27)) * 0x94D049BB133111EBULL;
  return z ^ (z >> 31);
}
uint64_t hash64(uint64_t x){ return splitmix(&x); }
void rng_seed(rng_t *r, uint64_t seed, uint64_t stream, uint64_t id){
  uint64_t x = seed * 0xD1342543DE82EF95ULL + hash64(stream ^ 0xabcdef12345ULL) + hash64(id + 0x51ULL) * 3;
  for(int i=0;i<4;i++) r->s[i] = splitmix(&x);
}
static inline uint64_t rotl(uint64_t x,int k){ return (x<<k)|(x>>(64-k)); }
uint64_t rng_next(rng_t *r){
  uint64_t *s=r->s, res=rotl(s[1]*5,7)*9, t=s[1]<<17;
  s[2]^=s[0]; s[3]^=s[1]; s[1]^=s[2]; s[0]^=s[3]; s[2]^=t; s[3]=rotl(s[3],45);
  return res;
}
uint32_t rng_below(rng_t *r, uint32_t n){ if(n<=1) return 0; return (uint32_t)((rng_next(r)>>11) % n); }
long rng_range(rng_t *r, long lo, long hi){
  if(hi<=lo) return lo;
  uint64_t span=(uint64_t)(hi-lo)+1;
  return lo + (long)((rng_next(r)>>1) % span);
}
double rng_unit(rng_t *r){ return (rng_next(r)>>11) * (1.0/9007199254740992.0); }
int rng_chance(rng_t *r, double p){ return rng_unit(r) < p; }
uint64_t fnv1a(const void *p, size_t n, uint64_t h){
  const unsigned char *c=p; if(!h) h=0xcbf29ce484222325ULL;
  for(size_t i=0;i<n;i++){ h^=c[i]; h*=0x100000001b3ULL; }
  return h;
}

/* ================= buffers ================= */
void buf_init(buf_t *b){ b->p=NULL; b->n=b->cap=0; }
void buf_add(buf_t *b, const void *p, size_t n){
  if(b->n+n>b->cap){ size_t c=b->cap?b->cap*2:4096; while(c<b->n+n)c*=2; b->p=realloc(b->p,c); b->cap=c; if(!b->p){fprintf(stderr,"oom\n");_exit(3);} }
  if(n) memcpy(b->p+b->n,p,n);
  b->n+=n;
}
void buf_free(buf_t *b){ free(b->p); b->p=NULL; b->n=b->cap=0; }

void pktlist_init(pktlist_t *l){ l->v=NULL; l->n=l->cap=0; }
void pktlist_push(pktlist_t *l, const ogg_packet *op){
  if(l->n==l->cap){ l->cap=l->cap?l->cap*2:64; l->v=realloc(l->v,sizeof(pkt_t)*l->cap); }
  pkt_t *p=&l->v[l->n++];
  p->bytes=op->bytes; p->data=malloc(op->bytes>0?op->bytes:1);
  if(op->bytes>0) memcpy(p->data,op->packet,op->bytes);
  p->granulepos=op->granulepos; p->packetno=op->packetno; p->b_o_s=op->b_o_s; p->e_o_s=op->e_o_s;
}
void pktlist_free(pktlist_t *l){ for(int i=0;i<l->n;i++) free(l->v[i].data); free(l->v); l->v=NULL; l->n=l->cap=0; }
void pkt_to_ogg(const pkt_t *p, ogg_packet *op){
  op->packet=p->data; op->bytes=p->bytes; op->granulepos=p->granulepos; op->packetno=p->packetno;
  op->b_o_s=p->b_o_s; op->e_o_s=p->e_o_s;
}

/* ================= signals ================= */
static const char *signames[SIG_NKINDS]={"silence","dc","tone","multi","noise","clicks","sweep","over10x",
  "denormal","alt","bursts","impulse","endclick","gated","wide","onset"};
const char *sig_name(int k){ return (k>=0&&k<SIG_NKINDS)?signames[k]:"?"; }
static inline double unit_hash(uint64_t a){ return (hash64(a)>>11)*(1.0/9007199254740992.0); }
float sig_sample(int kind, uint64_t seed, int ch, long i, long rate, long nsamples){
  double t=(double)i/(double)(rate>0?rate:1);
  uint64_t cs=seed*1315423911ULL+(uint64_t)ch*0x9E3779B97F4A7C15ULL;
  switch(kind){
  case SIG_SILENCE: return 0.f;
  case SIG_DC: return (i< nsamples/2)?0.5f:-0.25f;
  case SIG_TONE: { double f=rate*(0.01+0.02*(ch%7)+0.13*unit_hash(cs)); return (float)(0.95*sin(2*M_PI*f*t)); }
  case SIG_MULTI: {
    double env=0.35+0.3*sin(2*M_PI*1.37*t+ch)+0.2*sin(2*M_PI*0.71*t*(1+0.1*ch));
    double s=0; for(int k=0;k<5;k++){ double f=rate*(0.004+0.031*k+0.003*ch+0.01*unit_hash(cs+k)); s+=sin(2*M_PI*f*t+k); }
    return (float)(0.18*env*s); }
  case SIG_NOISE: return (float)(0.7*(2*unit_hash(cs^((uint64_t)i*0x2545F4914F6CDD1DULL))-1));
  case SIG_CLICKS: { uint64_t h=hash64(cs^(uint64_t)(i/97)); long pos=(long)(h%97);
    if((h>>20)%5==0 && (i%97)==pos) return (h&1)?0.9f:-0.9f;
    return (float)(0.002*(2*unit_hash(cs+i)-1)); }
  case SIG_SWEEP: { double T=(double)(nsamples>0?nsamples:1)/rate; double f0=50, f1=rate*0.45; double ph=2*M_PI*(f0*t+(f1-f0)*t*t/(2*T)); return (float)(0.6*sin(ph)); }
  case SIG_OVER: { double f=rate*(0.03+0.01*ch); return (float)(10.0*sin(2*M_PI*f*t)); }
  case SIG_DENORM: return (float)(((hash64(cs+i)&1)?1:-1)*1e-40);
  case SIG_ALT: return (i&1)?1.f:-1.f;
  case SIG_BURSTS: { long seg=i/ (rate/4>0?rate/4:1); uint64_t h=hash64(cs+seg*77);
    if(h%3==0) return 0.f;
    if(h%3==1) return (float)(0.9*(2*unit_hash(cs^((uint64_t)i*0x2545F4914F6CDD1DULL))-1));
    { uint64_t g=hash64(cs^(uint64_t)(i/31)); return ((i%31)==(long)(g%31))?0.95f:0.f; } }
  case SIG_IMPULSE: return (i==nsamples/3 || i==(2*nsamples)/3+ch)?1.f:0.f;
  case SIG_ENDCLICK: return (i>=nsamples-3)?0.9f:(float)(0.05*sin(2*M_PI*440*t));
  case SIG_GATED: { long seg=i/(rate/8>0?rate/8:1); uint64_t h=hash64(cs+seg*131);
    if(h%3==0) return 0.f;                       /* exact digital silence, channel by channel */
    return sig_sample(SIG_MULTI,seed,ch,i,rate,nsamples); }
  case SIG_ONSET: { long t0=nsamples/2+(long)(hash64(seed^0x0115e7)%1000); long dur=rate/6>0?rate/6:1;
    if(i<t0 || i>=t0+dur) return 0.f;
    /* the burst channel is chosen by the caller-visible helper; here: channel index must match for every channel count, so encode it in the seed */
    if((int)((seed>>8)%64)!=ch) return 0.f;
    return (float)(0.8*(2*unit_hash(cs^((uint64_t)i*0x2545F4914F6CDD1DULL))-1)); }
  case SIG_WIDE: {
    double env=0.4+0.25*sin(2*M_PI*1.13*t+ch)+0.15*sin(2*M_PI*0.61*t*(1+0.07*ch));
    double s=0; for(int k=0;k<7;k++){ double f=rate*(0.01+0.06*k+0.004*ch+0.012*unit_hash(cs+k+40)); s+=sin(2*M_PI*f*t+1.3*k); }
    return (float)(0.12*env*s); }
  }
  return 0.f;
}

void sig_onset_params(uint64_t seed,int channels,long nsamples,int *burst_channel,long *onset){
  (void)channels; *burst_channel=(int)((seed>>8)%64); *onset=nsamples/2+(long)(hash64(seed^0x0115e7)%1000);
}

/* ================= encoder driver ================= */
void enccfg_default(enccfg_t *c){
  memset(c,0,sizeof *c); c->channels=2; c->rate=44100; c->mode=ENC_VBR; c->quality=0.4f;
  c->br_max=-1; c->br_nom=-1; c->br_min=-1; c->sig=SIG_MULTI; c->sigseed=1; c->nsamples=20000;
  c->chunk=CHUNK_1024;
}
void enccfg_json(const enccfg_t *c, char *out, size_t n){
  snprintf(out,n,"ch=%d rate=%ld mode=%d q=%.3f br=%ld/%ld/%ld coff=%d lp=%.1f rm2=%d sig=%s(seed %llu) N=%ld chunk=%d lazy=%d",
    c->channels,c->rate,c->mode,c->quality,c->br_max,c->br_nom,c->br_min,c->coupling_off,c->lowpass_khz,c->have_rm2,
    sig_name(c->sig),(unsigned long long)c->sigseed,c->nsamples,c->chunk,c->lazy);
}
static __thread int g_enc_direct=0;   /* per thread: encoders run concurrently in the C18 driver */
static __thread long g_enc_probe=0, g_enc_probe_bad=0;
static void enc_drain(vorbis_dsp_state *vd, vorbis_block *vb, pktlist_t *pk){
  ogg_packet op;
  if(g_enc_direct){ while(vorbis_analysis_blockout(vd,vb)==1){ if(vorbis_analysis(vb,&op)==0) pktlist_push(pk,&op); } return; }
  while(vorbis_analysis_blockout(vd,vb)==1){
    if(g_enc_probe>0 && (g_enc_probe++%3)==0){ if(vorbis_analysis(vb,&op)!=OV_EINVAL) g_enc_probe_bad++; }   /* refused; the application carries on with the same block */
    else vorbis_analysis(vb,NULL);
    vorbis_bitrate_addblock(vb);
    while(vorbis_bitrate_flushpacket(vd,&op)) pktlist_push(pk,&op);
  }
}
int enc_run(const enccfg_t *c, encres_t *r){
  vorbis_info vi; vorbis_comment vc; vorbis_dsp_state vd; vorbis_block vb;
  int ret;
  memset(r,0,sizeof *r); pktlist_init(&r->pk);
  vorbis_info_init(&vi);
  switch(c->mode){
  case ENC_VBR: ret=vorbis_encode_setup_vbr(&vi,c->channels,c->rate,c->quality); break;
  case ENC_MANAGED: ret=vorbis_encode_setup_managed(&vi,c->channels,c->rate,c->br_max,c->br_nom,c->br_min); break;
  case ENC_INIT_ABR: ret=vorbis_encode_init(&vi,c->channels,c->rate,c->br_max,c->br_nom,c->br_min); break;
  default: ret=vorbis_encode_init_vbr(&vi,c->channels,c->rate,c->quality); break;
  }
  if(ret){ r->setup_ret=ret; vorbis_info_clear(&vi); return ret; }
  if(c->mode==ENC_VBR||c->mode==ENC_MANAGED){
    if(c->coupling_off){ int z=0; vorbis_encode_ctl(&vi,OV_ECTL_COUPLING_SET,&z); }
    if(c->lowpass_khz>0){ double lp=c->lowpass_khz; vorbis_encode_ctl(&vi,OV_ECTL_LOWPASS_SET,&lp); }
    if(c->impulse_block_bias!=0){ double b=c->impulse_block_bias; vorbis_encode_ctl(&vi,OV_ECTL_IBLOCK_SET,&b); }
    if(c->rm2_disable && c->mode==ENC_MANAGED) vorbis_encode_ctl(&vi,OV_ECTL_RATEMANAGE2_SET,NULL);
    if(c->have_rm2 && !c->rm2_disable){
      struct ovectl_ratemanage2_arg a;
      if(vorbis_encode_ctl(&vi,OV_ECTL_RATEMANAGE2_GET,&a)==0 && a.management_active){
        long rate_bits = a.bitrate_limit_max_kbps>0? a.bitrate_limit_max_kbps*1000 :
                         (a.bitrate_limit_min_kbps>0? a.bitrate_limit_min_kbps*1000 : a.bitrate_average_kbps*1000);
        if(c->rm2_reservoir_bits_secs>0) a.bitrate_limit_reservoir_bits=(long)(rate_bits*c->rm2_reservoir_bits_secs);
        a.bitrate_limit_reservoir_bias=c->rm2_bias;
        if(c->rm2_damping>0) a.bitrate_average_damping=c->rm2_damping;
        if(c->rm2_avg_off) a.bitrate_average_kbps=0;
        if(c->rm2_max_kbps>0){ a.bitrate_limit_max_kbps=c->rm2_max_kbps; if(c->rm2_reservoir_bits_secs>0) a.bitrate_limit_reservoir_bits=(long)(c->rm2_max_kbps*1000*c->rm2_reservoir_bits_secs); }
        vorbis_encode_ctl(&vi,OV_ECTL_RATEMANAGE2_SET,&a);
      }
    }
    { /* read the management settings back while the set-up is still open (the request is refused once it is frozen) */
      struct ovectl_ratemanage2_arg a; memset(&a,0,sizeof a);
      if(vorbis_encode_ctl(&vi,OV_ECTL_RATEMANAGE2_GET,&a)==0){
        r->managed=a.management_active; r->rm_min_kbps_x1000=a.bitrate_limit_min_kbps*1000;
        r->rm_max_kbps_x1000=a.bitrate_limit_max_kbps*1000; r->rm_avg=a.bitrate_average_kbps*1000;
        r->rm_reservoir_bits=a.bitrate_limit_reservoir_bits; r->rm_bias=a.bitrate_limit_reservoir_bias;
      }
    }
    ret=vorbis_encode_setup_init(&vi);
    if(ret){ r->setup_ret=ret; vorbis_info_clear(&vi); return ret; }
  }
  r->channels=vi.channels; r->rate=vi.rate;
  r->bitrate_upper=vi.bitrate_upper; r->bitrate_nominal=vi.bitrate_nominal;
  r->bitrate_lower=vi.bitrate_lower; r->bitrate_window=vi.bitrate_window;
  r->bs0=vorbis_info_blocksize(&vi,0); r->bs1=vorbis_info_blocksize(&vi,1);
  vorbis_comment_init(&vc);
  if(c->comments) for(int i=0;i<c->ncomments;i++) vorbis_comment_add(&vc,c->comments[i]);
  else vorbis_comment_add_tag(&vc,"ENCODER","vh-harness");
  vorbis_analysis_init(&vd,&vi);
  vorbis_block_init(&vd,&vb);
  g_enc_direct= c->direct && !r->managed && c->mode!=ENC_MANAGED && c->mode!=ENC_INIT_ABR;
  g_enc_probe= (c->direct_probe && r->managed)? 1:0; g_enc_probe_bad=0;
  {
    ogg_packet h1,h2,h3;
    vorbis_analysis_headerout(&vd,&vc,&h1,&h2,&h3);
    pktlist_push(&r->pk,&h1); pktlist_push(&r->pk,&h2); pktlist_push(&r->pk,&h3);
  }
  {
    rng_t cr; rng_seed(&cr,c->sigseed,0xC4,(uint64_t)c->chunk);
    long done=0, calls=0;
    while(done<c->nsamples){
      long n;
      switch(c->chunk){
      case CHUNK_ONE: n=c->nsamples-done; break;
      case CHUNK_1: n=1; break;
      case CHUNK_1024: n=1024; break;
      case CHUNK_RANDOM: n=rng_range(&cr,1,8192); break;
      default: n=rng_range(&cr,60000,131072); break;
      }
      if(n>131072)n=131072;
      if(n>c->nsamples-done)n=c->nsamples-done;
      float **b=vorbis_analysis_buffer(&vd,(int)n);
      for(int ch=0;ch<c->channels;ch++)
        for(long i=0;i<n;i++) b[ch][i]=sig_sample(c->sig,c->sigseed,ch,done+i,c->rate,c->nsamples);
      if(c->refused_wrote>0 && calls+1==c->refused_wrote) r->refused_wrote_ret=vorbis_analysis_wrote(&vd,(int)n+1000000);
      if(vorbis_analysis_wrote(&vd,(int)n)) r->wrote_errors++;
      done+=n; calls++;
      if(!c->lazy || (calls&3)==0) enc_drain(&vd,&vb,&r->pk);
    }
    vorbis_analysis_wrote(&vd,0);
    enc_drain(&vd,&vb,&r->pk);
    r->ncalls_wrote=calls; r->nsubmitted=done; r->direct_probe_bad=g_enc_probe_bad; g_enc_probe=0;
  }
  vorbis_block_clear(&vb); vorbis_dsp_clear(&vd); vorbis_comment_clear(&vc); vorbis_info_clear(&vi);
  return 0;
}
void encres_free(encres_t *r){ pktlist_free(&r->pk); }

/* ================= mux / scan ================= */
static void emit_page(buf_t *out, ogg_page *og){ buf_add(out,og->header,og->header_len); buf_add(out,og->body,og->body_len); }
__thread int vh_mux_header_style=0;
void mux_stream(const pktlist_t *pk, int serial, int policy, int fill, uint64_t seed, buf_t *out){ mux_stream_off(pk,serial,policy,fill,seed,0,out); }
void mux_stream_off(const pktlist_t *pk, int serial, int policy, int fill, uint64_t seed, long goffset, buf_t *out){
  ogg_stream_state os; ogg_page og; ogg_packet op; rng_t r; rng_seed(&r,seed,0x30,(uint64_t)serial);
  ogg_stream_init(&os,serial);
  for(int i=0;i<pk->n;i++){
    pkt_to_ogg(&pk->v[i],&op);
    if(i>=3 && op.granulepos>=0) op.granulepos+=goffset;
    ogg_stream_packetin(&os,&op);
    /* header paging (round 8): 0 = identification page + one page holding comment and setup (what every encoder front end writes); 1 = one header packet per page;
       2 = comment and setup spread over several small continued pages.  All three are legal: only the identification header has a page of its own by rule. */
    if(i==1 && vh_mux_header_style==1){ while(ogg_stream_flush(&os,&og)) emit_page(out,&og); continue; }
    if(i==2 && vh_mux_header_style==2){ while(ogg_stream_pageout_fill(&os,&og,700)) emit_page(out,&og); }
    if(i==0 || i==2){ while(ogg_stream_flush(&os,&og)) emit_page(out,&og); continue; }
    if(i<3) continue;
    int pol=policy;
    if(policy==PAGE_RANDOM) pol=(int)rng_below(&r,3);
    if(pol==PAGE_FLUSH_EACH){ while(ogg_stream_flush(&os,&og)) emit_page(out,&og); }
    else if(pol==PAGE_FILL){ int f=fill; if(policy==PAGE_RANDOM) f=(int)rng_range(&r,1,20000);
      while(ogg_stream_pageout_fill(&os,&og,f)) emit_page(out,&og); }
    else { while(ogg_stream_pageout(&os,&og)) emit_page(out,&og); }
  }
  while(ogg_stream_flush(&os,&og)) emit_page(out,&og);
  ogg_stream_clear(&os);
}

static void raw_page(buf_t *out,int serial,long *pageno,int flags,ogg_int64_t gp,const unsigned char *lace,int nl,const unsigned char *body,long bl){
  unsigned char h[27+255]; memcpy(h,"OggS",4); h[4]=0; h[5]=(unsigned char)flags;
  for(int b=0;b<8;b++) h[6+b]=(unsigned char)((uint64_t)gp>>(8*b));
  for(int b=0;b<4;b++) h[14+b]=(unsigned char)((uint32_t)serial>>(8*b));
  for(int b=0;b<4;b++) h[18+b]=(unsigned char)((uint32_t)*pageno>>(8*b));
  memset(h+22,0,4); h[26]=(unsigned char)nl; memcpy(h+27,lace,nl); (*pageno)++;
  ogg_page og; og.header=h; og.header_len=27+nl; og.body=(unsigned char*)body; og.body_len=bl; ogg_page_checksum_set(&og);
  buf_add(out,h,27+nl); buf_add(out,body,bl);
}
static int lace_add(unsigned char *lace,int *nl,unsigned char *body,long *bl,const unsigned char *d,long n,int terminate){
  long left=n; while(left>=255){ if(*nl>=255) return -1; lace[(*nl)++]=255; left-=255; }
  if(terminate){ if(*nl>=255) return -1; lace[(*nl)++]=(unsigned char)left; }
  else if(left) return -1;   /* an unterminated piece must be a multiple of 255 */
  memcpy(body+*bl,d,n); *bl+=n; return 0;
}
void mux_tailpages(const pktlist_t *pk, int serial, uint64_t seed, buf_t *out){
  rng_t r; rng_seed(&r,seed,0x7a11,(uint64_t)serial); long pageno=0; static unsigned char body[70000]; unsigned char lace[256]; int nl; long bl;
  nl=0;bl=0; lace_add(lace,&nl,body,&bl,pk->v[0].data,pk->v[0].bytes,1); raw_page(out,serial,&pageno,2,0,lace,nl,body,bl);
  nl=0;bl=0; lace_add(lace,&nl,body,&bl,pk->v[1].data,pk->v[1].bytes,1); if(lace_add(lace,&nl,body,&bl,pk->v[2].data,pk->v[2].bytes,1)){ /* setup too large for one page with the comment: own pages via libogg is not worth it here */ }
  raw_page(out,serial,&pageno,0,0,lace,nl,body,bl);
  int i=3, pg=0;
  while(i<pk->n){
    nl=0;bl=0;
    if(pg%4==2 && i+2<pk->n-2 && pk->v[i+2].bytes>300 && pk->v[i].bytes+pk->v[i+1].bytes<40000){
      lace_add(lace,&nl,body,&bl,pk->v[i].data,pk->v[i].bytes,1); lace_add(lace,&nl,body,&bl,pk->v[i+1].data,pk->v[i+1].bytes,1);
      lace_add(lace,&nl,body,&bl,pk->v[i+2].data,255,0);
      raw_page(out,serial,&pageno,0,pk->v[i+1].granulepos,lace,nl,body,bl);
      nl=0;bl=0; lace_add(lace,&nl,body,&bl,pk->v[i+2].data+255,pk->v[i+2].bytes-255,1);
      raw_page(out,serial,&pageno,1,pk->v[i+2].granulepos,lace,nl,body,bl);
      i+=3; pg++; continue;
    }
    int cnt=(int)rng_range(&r,1,3), c=0;
    for(;c<cnt && i<pk->n;c++,i++) if(lace_add(lace,&nl,body,&bl,pk->v[i].data,pk->v[i].bytes,1)){ break; }
    if(c==0){ i++; continue; }   /* packet too large for a hand-made page: skip it (the stream then has a hole, still valid input) */
    raw_page(out,serial,&pageno,i>=pk->n?4:0,pk->v[i-1].granulepos,lace,nl,body,bl);
    pg++;
  }
}
/* a link whose audio data BEGINS with continuation pages: one page per header group, `first` (possibly 0) ordinary one-packet pages, then the first page of the first
   packet of >= 511 bytes is left out, so that the data continues with a page holding only 255-byte segments of it (continued, no granule position) and a page holding only its tail (continued,
   granule position set); one packet per page afterwards.  Returns 0 if no packet was large enough (nothing written then). */
int mux_headless_tail(const pktlist_t *pk, int serial, int first, buf_t *out){
  long pageno=0; static __thread unsigned char body[70000]; unsigned char lace[256]; int nl; long bl;
  int i=-1; for(int j=3;j<pk->n-1 && j<43;j++) if(pk->v[j].bytes>=511){ i=j; break; }   /* earlier (smaller) packets are simply absent, except `first` of them */
  if(i<0 || pk->v[0].bytes>60000 || pk->v[1].bytes+pk->v[2].bytes>60000) return 0;
  if(first>i-3) first=i-3;
  for(int j=3;j<pk->n;j++) if(pk->v[j].bytes>60000) return 0;
  nl=0;bl=0; lace_add(lace,&nl,body,&bl,pk->v[0].data,pk->v[0].bytes,1); raw_page(out,serial,&pageno,2,0,lace,nl,body,bl);
  nl=0;bl=0; lace_add(lace,&nl,body,&bl,pk->v[1].data,pk->v[1].bytes,1); lace_add(lace,&nl,body,&bl,pk->v[2].data,pk->v[2].bytes,1); raw_page(out,serial,&pageno,0,0,lace,nl,body,bl);
  for(int j=i-first;j<i;j++){ nl=0;bl=0; lace_add(lace,&nl,body,&bl,pk->v[j].data,pk->v[j].bytes,1); raw_page(out,serial,&pageno,0,pk->v[j].granulepos,lace,nl,body,bl); }
  pageno++;   /* the page that held the first 255 bytes is missing */
  nl=0;bl=0; lace_add(lace,&nl,body,&bl,pk->v[i].data+255,255,0); raw_page(out,serial,&pageno,1,-1,lace,nl,body,bl);
  nl=0;bl=0; lace_add(lace,&nl,body,&bl,pk->v[i].data+510,pk->v[i].bytes-510,1); raw_page(out,serial,&pageno,1,pk->v[i].granulepos,lace,nl,body,bl);
  for(int j=i+1;j<pk->n;j++){ nl=0;bl=0; lace_add(lace,&nl,body,&bl,pk->v[j].data,pk->v[j].bytes,1); raw_page(out,serial,&pageno,j==pk->n-1?4:0,pk->v[j].granulepos,lace,nl,body,bl); }
  return 1;
}
/* Multiplex a foreign (non-Vorbis) logical stream into one muxed link: its BOS page directly after the Vorbis BOS page (all BOS pages come first), its data pages
   scattered between the Vorbis pages, and its last pages - with EOS - before (where=0) or AFTER (where=1) the Vorbis EOS page.  Valid Ogg; vorbisfile is documented to
   ignore streams it does not decode. */
void mux_add_foreign(const buf_t *link, int fserial, uint64_t seed, int where, buf_t *out){
  rng_t r; rng_seed(&r,seed,0xf0e1,(uint64_t)fserial); pageinfo_t *pg=NULL; int np=page_scan(link->p,link->n,&pg);
  int bosfirst=(where&2)!=0; int eosmid=(where&4)!=0; where&=1;   /* bit 2: the foreign stream ENDS in the middle of the link (its EOS page between two Vorbis audio pages) */ int fdone=0;   /* bit 1: the foreign BOS page comes BEFORE the Vorbis BOS page (any order inside the BOS group is legal) */
  { int audio=0; for(int i=0;i<np;i++) if(pg[i].granule!=0) audio++; if(audio<2) where=1; }   /* no foreign page between the headers and the first audio page (see DESIGN section 13) */
  ogg_stream_state fs; ogg_page fo; ogg_packet fp; unsigned char body[600]; ogg_stream_init(&fs,fserial); ogg_int64_t fg=0; long pno=0;
  memset(&fp,0,sizeof fp); memset(body,0,sizeof body); memcpy(body,"\x80theora",7); fp.packet=body; fp.bytes=42; fp.b_o_s=1; fp.packetno=pno++; ogg_stream_packetin(&fs,&fp);
  if(bosfirst){ while(ogg_stream_flush(&fs,&fo)){ buf_add(out,fo.header,fo.header_len); buf_add(out,fo.body,fo.body_len); } }
  for(int i=0;i<np;i++){
    int last=(i==np-1);
    if(last && where==0 && !fdone){ /* foreign EOS before the Vorbis EOS page */
      memset(&fp,0,sizeof fp); for(int k=0;k<50;k++) body[k]=(unsigned char)rng_next(&r); fp.packet=body; fp.bytes=50; fp.e_o_s=1; fp.granulepos=++fg; fp.packetno=pno++; ogg_stream_packetin(&fs,&fp);
      while(ogg_stream_flush(&fs,&fo)){ buf_add(out,fo.header,fo.header_len); buf_add(out,fo.body,fo.body_len); } }
    buf_add(out,link->p+pg[i].off,pg[i].len);
    if(i==0){ while(ogg_stream_flush(&fs,&fo)){ buf_add(out,fo.header,fo.header_len); buf_add(out,fo.body,fo.body_len); } }
    else if(eosmid && !fdone && !last && pg[i].granule!=0 && i>=np/2){ fdone=1;
      memset(&fp,0,sizeof fp); for(int z=0;z<60;z++) body[z]=(unsigned char)rng_next(&r); fp.packet=body; fp.bytes=60; fp.e_o_s=1; fp.granulepos=++fg; fp.packetno=pno++; ogg_stream_packetin(&fs,&fp);
      while(ogg_stream_flush(&fs,&fo)){ buf_add(out,fo.header,fo.header_len); buf_add(out,fo.body,fo.body_len); } }
    else if(!fdone && !last && pg[i].granule!=0 && rng_chance(&r,0.4)){ int k=(int)rng_range(&r,1,3);
      for(int q=0;q<k;q++){ memset(&fp,0,sizeof fp); int L=(int)rng_range(&r,1,500); for(int z=0;z<L;z++) body[z]=(unsigned char)rng_next(&r); fp.packet=body; fp.bytes=L; fp.granulepos=++fg; fp.packetno=pno++; ogg_stream_packetin(&fs,&fp); }
      while(ogg_stream_flush(&fs,&fo)){ buf_add(out,fo.header,fo.header_len); buf_add(out,fo.body,fo.body_len); } }
  }
  if(where==1 && !fdone){ int k=(int)rng_range(&r,1,3);
    for(int q=0;q<k;q++){ memset(&fp,0,sizeof fp); int L=(int)rng_range(&r,1,500); for(int z=0;z<L;z++) body[z]=(unsigned char)rng_next(&r); fp.packet=body; fp.bytes=L; fp.granulepos=++fg; fp.e_o_s=(q==k-1); fp.packetno=pno++; ogg_stream_packetin(&fs,&fp);
      while(ogg_stream_flush(&fs,&fo)){ buf_add(out,fo.header,fo.header_len); buf_add(out,fo.body,fo.body_len); } } }
  ogg_stream_clear(&fs); free(pg);
}
int page_scan(const unsigned char *d, size_t n, pageinfo_t **out){
  ogg_sync_state oy; ogg_page og; int cnt=0, cap=64; pageinfo_t *v=malloc(sizeof(*v)*cap);
  long base=0; size_t fed=0;
  ogg_sync_init(&oy);
  while(1){
    long r=ogg_sync_pageseek(&oy,&og);
    if(r<0){ base+=-r; continue; }
    if(r==0){
      if(fed>=n) break;
      size_t k=n-fed; if(k>65536)k=65536;
      char *b=ogg_sync_buffer(&oy,(long)k); memcpy(b,d+fed,k); ogg_sync_wrote(&oy,(long)k); fed+=k; continue;
    }
    if(cnt==cap){ cap*=2; v=realloc(v,sizeof(*v)*cap); }
    pageinfo_t *p=&v[cnt++];
    p->off=base; p->len=r; p->serial=ogg_page_serialno(&og); p->granule=ogg_page_granulepos(&og);
    p->bos=ogg_page_bos(&og)?1:0; p->eos=ogg_page_eos(&og)?1:0; p->continued=ogg_page_continued(&og)?1:0;
    p->packets=ogg_page_packets(&og); p->pageno=ogg_page_pageno(&og);
    base+=r;
  }
  ogg_sync_clear(&oy);
  *out=v; return cnt;
}

/* ================= chains ================= */
static const long gc_rates[]={8000,11025,16000,22050,32000,44100,48000,96000,12000,24000,64000};
void gen_chain(rng_t *r, int maxlinks, long maxN, int flags, chaindesc_t *d){
  memset(d,0,sizeof *d);
  if(maxlinks>VH_MAXLINKS)maxlinks=VH_MAXLINKS;
  /* half the streams are single-link, the rest 2..maxlinks */
  d->nlinks = (maxlinks<=1||rng_chance(r,0.35))?1:(int)rng_range(r,2,maxlinks);
  d->muxseed=rng_next(r);
  int base=(int)(rng_next(r)&0x7fffffff);
  int sermode=(int)rng_below(r,6);
  for(int i=0;i<d->nlinks;i++){
    enccfg_t *c=&d->cfg[i]; enccfg_default(c);
    int rsel=(int)rng_below(r,100);
    c->rate = rsel<70 ? gc_rates[rng_below(r,7)] : gc_rates[rng_below(r,11)];
    c->channels = rng_chance(r,0.45)?1:2;
    if((flags&GC_MULTICH) && rng_chance(r,0.12)) c->channels=(int)rng_range(r,3,8);
    c->quality=(float)(-0.1+1.1*rng_unit(r));
    if(rng_chance(r,0.15)) c->quality=(rng_chance(r,0.5)?-0.1f:1.0f);
    if((flags&GC_MANAGED) && rng_chance(r,0.12)){
      c->mode=ENC_MANAGED; long nom=(long)(c->rate*c->channels*(0.9+rng_unit(r)*1.2)); c->br_nom=nom; c->br_max=-1; c->br_min=-1;
      if(rng_chance(r,0.5)) c->br_max=(long)(nom*1.3);
    }
    c->sig=(int)rng_below(r,SIG_NCLASSIC); if(c->sig==SIG_DENORM||c->sig==SIG_SILENCE){ if(rng_chance(r,0.7)) c->sig=SIG_MULTI; }
    c->sigseed=rng_next(r);
    int nsel=(int)rng_below(r,100);
    if((flags&GC_ALLOW_EMPTY) && nsel<6) c->nsamples=0;
    else if((flags&GC_ALLOW_EMPTY) && nsel<12) c->nsamples=rng_range(r,1,300);
    else if(nsel<30) c->nsamples=rng_range(r,300,4000);
    else c->nsamples=rng_range(r,4000,maxN>4000?maxN:4001);
    if(d->nlinks>3 && c->nsamples>maxN/2) c->nsamples/=2;
    c->chunk=(int)rng_below(r,4); if(c->chunk==CHUNK_1 && c->nsamples>3000) c->chunk=CHUNK_RANDOM;
    c->lazy=(int)rng_below(r,2);
    switch(sermode){
    case 0: d->serial[i]=base+i; break;
    case 1: d->serial[i]=(int)(hash64(base+i)&0xffffffffu); break;
    case 2: d->serial[i]=(i==0)?(int)0x80000000u:(i==1?0x7fffffff:(i==2?-1:i)); break;
    case 3: d->serial[i]=-1-i; break;
    case 4: d->serial[i]=i; break;
    default: d->serial[i]=base-i*1000003; break;
    }
    if((flags&GC_BIGPAGES) && rng_chance(r,0.06)){
      c->channels= rng_chance(r,0.15)?255:(int)rng_range(r,12,64); c->rate=44100; c->mode=ENC_VBR; c->quality=1.0f;
      c->sig= rng_chance(r,0.5)?SIG_ALT:SIG_NOISE; c->nsamples=rng_range(r,1500,c->channels>100?2600:7000); c->chunk=CHUNK_1024;
    }
    { uint64_t gh=hash64(d->muxseed*131+(uint64_t)i*977+5); d->goffset[i]= (flags&GC_GOFFSET) && (gh%100)<18 ? (long)(1+(gh>>8)%((gh>>40)%3==0?5000000:90000)) : 0;
      if((flags&GC_BEGINTRIM) && (gh%100)>=18 && (gh%100)<58) d->goffset[i]=-(long)(1+(gh>>8)%4000); }   /* negative: begin-trimmed link, see vh_mux_link */
    for(int j=0;j<i;j++) if(d->serial[j]==d->serial[i]){ d->serial[i]=(int)(hash64(d->serial[i]+i*7919)&0x7fffffff); j=-1; }
    int ps=(int)rng_below(r,100);
    d->policy[i]= ps<35?PAGE_DEFAULT: ps<55?PAGE_FLUSH_EACH: ps<85?PAGE_FILL:PAGE_RANDOM;
    if(c->channels>8 && c->quality>=1.0f){ d->policy[i]= rng_chance(r,0.5)?PAGE_FILL:PAGE_DEFAULT; }
    { int fs=(int)rng_below(r,5); if(c->channels>8) fs=4; d->fill[i]= fs==0?1: fs==1?255: fs==2?(int)rng_range(r,256,2000): fs==3?(int)rng_range(r,2000,12000):(int)rng_range(r,12000,65025); }
  }
}
/* muxes link i; a granule offset is dropped again when all the audio lands on one page: for a page that is both the first and
   the last of a link, "starts above zero" and "last packet trimmed" cannot be told apart (one granule position, two unknowns) */
void vh_mux_link(const pktlist_t *pk, chaindesc_t *d, int i, buf_t *out){
  if(d->goffset[i]<0){
    /* a BEGIN-TRIMMED link (what a stream cutter leaves): every granule position lowered by t, so that the first audio page claims fewer samples than its packets
       decode to and the decoder drops the first t samples.  t stays below the first audio page's granule position; the link then simply has N-t samples starting at
       position 0 (vorbisfile clamps the initial offset at 0), which is what the descriptor says afterwards. */
    buf_t t0; buf_init(&t0); mux_stream_off(pk,d->serial[i],d->policy[i],d->fill[i],d->muxseed+i,0,&t0);
    pageinfo_t *pg=NULL; int np=page_scan(t0.p,t0.n,&pg); int audio=0; long g1=0; for(int k=0;k<np;k++) if(pg[k].granule>0){ if(!audio) g1=(long)pg[k].granule; audio++; }
    free(pg); buf_free(&t0);
    long t=-d->goffset[i]; if(g1>1) t=1+t%(g1-1); else t=0;
    d->goffset[i]=0;
    if(audio>=2 && t>0 && d->cfg[i].nsamples>t){ mux_stream_off(pk,d->serial[i],d->policy[i],d->fill[i],d->muxseed+i,-t,out); d->cfg[i].nsamples-=t; return; }
  }
  if(d->goffset[i]){
    buf_t t; buf_init(&t); mux_stream_off(pk,d->serial[i],d->policy[i],d->fill[i],d->muxseed+i,d->goffset[i],&t);
    pageinfo_t *pg=NULL; int np=page_scan(t.p,t.n,&pg); int audio=0; for(int k=0;k<np;k++) if(pg[k].granule>0) audio++;
    free(pg);
    if(audio>=2){ buf_add(out,t.p,t.n); buf_free(&t); return; }
    buf_free(&t); d->goffset[i]=0;
  }
  mux_stream_off(pk,d->serial[i],d->policy[i],d->fill[i],d->muxseed+i,0,out);
}
int build_chain(chaindesc_t *d, buf_t *out, size_t *link_off){
  for(int i=0;i<d->nlinks;i++){
    encres_t er; int ret=enc_run(&d->cfg[i],&er);
    if(link_off) link_off[i]=out->n;
    if(ret){ encres_free(&er); return ret; }
    vh_mux_link(&er.pk,d,i,out);
    encres_free(&er);
  }
  if(link_off) link_off[d->nlinks]=out->n;
  return 0;
}
void chain_describe(const chaindesc_t *d, char *out, size_t n){
  size_t k=0; k+=snprintf(out+k,n-k,"links=%d",d->nlinks);
  for(int i=0;i<d->nlinks && k+80<n;i++){
    const enccfg_t *c=&d->cfg[i];
    k+=snprintf(out+k,n-k," [%dch %ldHz %s%.2f N=%ld %s pg%d/%d ser=%d]",c->channels,c->rate,c->mode==ENC_VBR?"q":"abr",
      c->mode==ENC_VBR?c->quality:(float)c->br_nom/1000.f,c->nsamples,sig_name(c->sig),d->policy[i],d->fill[i],d->serial[i]);
    if(d->goffset[i] && k+24<n) k+=snprintf(out+k,n-k,"{g+%ld}",d->goffset[i]);
  }
}

/* ================= memsrc ================= */
static const char *fnames[F_NKINDS]={"none","read_err","read_zero","read_one","seek_fail","tell_fail"};
const char *fault_name(int k){ return (k>=0&&k<F_NKINDS)?fnames[k]:"?"; }
void memsrc_init(memsrc_t *m, const unsigned char *d, size_t n, int seekmode){
  memset(m,0,sizeof *m); m->data=d; m->len=(int64_t)n; m->seekmode=seekmode; m->rs=RS_FULL; m->errno_dirty=memsrc_errno_dirty_default;
}
void memsrc_schedule(memsrc_t *m, int rs, int cap, uint64_t seed){ m->rs=rs; m->rs_cap=cap>0?cap:1; rng_seed(&m->rs_rng,seed,0x77,(uint64_t)rs); }
void memsrc_fault(memsrc_t *m, int kind, long at, int persist){ m->f_kind=kind; m->f_at=at; m->f_persist=persist; m->f_on=1; m->f_fired=0; }
void memsrc_clear_fault(memsrc_t *m){ m->f_on=0; m->f_kind=F_NONE; }
static void ms_tick(memsrc_t *m){
  m->n_calls++;
  if(m->budget>0){ if(++m->budget_used>m->budget){ m->overrun=1; if(m->jb) siglongjmp(*m->jb,1); } }
}
int memsrc_errno_dirty_default=0;
static int ms_fault_hit(memsrc_t *m, int cls, long idx){
  /* cls: 0 read,1 seek,2 tell.  Fault index is per callback kind. */
  if(!m->f_on) return 0;
  int fc = (m->f_kind==F_SEEK_FAIL)?1:(m->f_kind==F_TELL_FAIL)?2:0;
  if(m->f_kind==F_NONE || fc!=cls) return 0;
  if(idx==m->f_at || (m->f_persist && idx>m->f_at)){ m->f_fired++; return 1; }
  return 0;
}
static size_t ms_read(void *ptr, size_t size, size_t nmemb, void *ds){
  memsrc_t *m=ds; long idx=m->n_read++; ms_tick(m);
  size_t want=size*nmemb; int64_t left=m->len-m->pos; if(left<0)left=0;
  if(ms_fault_hit(m,0,idx)){
    if(m->f_kind==F_READ_ERR){ errno=EIO; return 0; }
    if(m->f_kind==F_READ_ZERO){ errno=0; return 0; }
    if(m->f_kind==F_READ_ONE){ if(want>1)want=1; }
  }
  switch(m->rs){
  case RS_CAP: if(want>(size_t)m->rs_cap)want=m->rs_cap; break;
  case RS_ONE: if(want>1)want=1; break;
  case RS_RANDOM: { size_t k=(size_t)rng_range(&m->rs_rng,1,m->rs_cap); if(want>k)want=k; } break;
  case RS_ONE_THEN_FULL: if((idx&1)==0 && want>1)want=1; break;
  default: break;
  }
  if((int64_t)want>left)want=(size_t)left;
  if(size>1) want-=want%size;
  if(want) memcpy(ptr,m->data+m->pos,want);
  m->pos+=want; m->bytes_served+=want;
  /* errno is left alone, as fread leaves it: the library has to clear it itself before it draws conclusions from it */
  if(m->errno_dirty && want>0 && idx%3!=1) errno=EINTR;   /* data was delivered after an interrupted attempt; a true end of data (0 bytes) leaves errno as the library set it */
  return size?want/size:0;
}
static int ms_seek(void *ds, ogg_int64_t off, int whence){
  memsrc_t *m=ds; long idx=m->n_seek++; ms_tick(m);
  if(m->seekmode==2) return -1;
  if(ms_fault_hit(m,1,idx)){ errno=EIO; return -1; }   /* as fseek does: -1 with errno set */
  int64_t np;
  if(whence==SEEK_SET) np=off; else if(whence==SEEK_CUR) np=m->pos+off; else np=m->len+off;
  if(np<0) return -1;
  m->pos=np; return 0;
}
static int ms_close(void *ds){ memsrc_t *m=ds; m->n_close++; return 0; }
static long ms_tell(void *ds){
  memsrc_t *m=ds; long idx=m->n_tell++; ms_tick(m);
  if(ms_fault_hit(m,2,idx)){ errno=ESPIPE; return -1; }   /* as ftell does */
  return (long)m->pos;
}
ov_callbacks memsrc_cb(const memsrc_t *m){
  ov_callbacks cb; cb.read_func=ms_read; cb.close_func=ms_close;
  if(m->seekmode==0){ cb.seek_func=NULL; cb.tell_func=NULL; }
  else { cb.seek_func=ms_seek; cb.tell_func=ms_tell; }
  return cb;
}

/* ================= reference decode ================= */
int ref_decode(const unsigned char *d, size_t n, int halfrate, refdec_t *out){
  OggVorbis_File vf; memsrc_t ms; int ret;
  memset(out,0,sizeof *out); out->hs=halfrate?1:0;
  memsrc_init(&ms,d,n,1);
  ret=ov_open_callbacks(&ms,&vf,NULL,0,memsrc_cb(&ms));
  if(ret){ snprintf(out->err,sizeof out->err,"open=%d",ret); return -1; }
  if(halfrate){ ret=ov_halfrate(&vf,1); if(ret){ snprintf(out->err,sizeof out->err,"halfrate=%d",ret); ov_clear(&vf); return -2; } }
  out->nlinks=ov_streams(&vf);
  out->l=calloc(out->nlinks,sizeof(reflink_t));
  out->total=ov_pcm_total(&vf,-1);
  {
    int64_t acc=0;
    for(int i=0;i<out->nlinks;i++){
      vorbis_info *vi=ov_info(&vf,i); reflink_t *L=&out->l[i];
      L->ch=vi->channels; L->rate=vi->rate; L->start=acc; L->len=ov_pcm_total(&vf,i); acc+=L->len;
      L->bs0=vorbis_info_blocksize(vi,0); L->bs1=vorbis_info_blocksize(vi,1); L->serial=ov_serialnumber(&vf,i);
      long cap=(long)((L->len>>out->hs)+2);
      L->pcm=calloc(L->ch,sizeof(float*));
      for(int c=0;c<L->ch;c++) L->pcm[c]=calloc(cap>0?cap:1,sizeof(float));
    }
    if(acc!=out->total){ snprintf(out->err,sizeof out->err,"total %lld != sum %lld",(long long)out->total,(long long)acc); ov_clear(&vf); return -3; }
  }
  {
    int64_t pos=0; int cur=0; int bs=-1;
    if(ov_pcm_tell(&vf)!=0){ snprintf(out->err,sizeof out->err,"tell after open=%lld",(long long)ov_pcm_tell(&vf)); ov_clear(&vf); return -4; }
    while(1){
      float **pcm; int64_t before=ov_pcm_tell(&vf);
      long got=ov_read_float(&vf,&pcm,4096,&bs);
      if(got==0) break;
      if(got<0){ snprintf(out->err,sizeof out->err,"read=%ld at %lld",got,(long long)pos); ov_clear(&vf); return -5; }
      if(bs<cur || bs>=out->nlinks){ snprintf(out->err,sizeof out->err,"bitstream %d after %d",bs,cur); ov_clear(&vf); return -6; }
      if(bs>cur){ /* moved to a later link: position jumps to that link's start (odd-length links at half rate) */
        cur=bs; if(pos>out->l[cur].start+1 || pos<out->l[cur].start-1){ /* tolerate half-rate rounding */ }
        pos=out->l[cur].start;
      }
      reflink_t *L=&out->l[cur];
      if(!halfrate && before!=pos){ snprintf(out->err,sizeof out->err,"tell %lld != running %lld",(long long)before,(long long)pos); ov_clear(&vf); return -7; }
      long idx=(long)((pos-L->start)>>out->hs);
      long room=(long)((L->len>>out->hs)+2)-idx;
      if(got>room){ snprintf(out->err,sizeof out->err,"link %d delivers beyond its length (%ld at idx %ld, len %lld)",cur,got,idx,(long long)L->len); ov_clear(&vf); return -8; }
      for(int c=0;c<L->ch;c++) memcpy(L->pcm[c]+idx,pcm[c],sizeof(float)*got);
      L->nout=idx+got;
      pos+=(int64_t)got<<out->hs;
    }
  }
  ov_clear(&vf);
  return 0;
}
void ref_free(refdec_t *r){
  for(int i=0;i<r->nlinks;i++){ if(r->l[i].pcm){ for(int c=0;c<r->l[i].ch;c++) free(r->l[i].pcm[c]); free(r->l[i].pcm);} }
  free(r->l); r->l=NULL; r->nlinks=0;
}
int ref_link_of(const refdec_t *r, int64_t pos){
  for(int i=0;i<r->nlinks;i++) if(pos>=r->l[i].start && pos<r->l[i].start+r->l[i].len) return i;
  return -1;
}

/* ================= result reporting ================= */
#define MAXB 96
#define MAXV 12
static struct {
  long id; long evals; int nb; char b[MAXB][96]; int nv; char vprop[MAXV][8]; char vkey[MAXV][160]; char vdet[MAXV][400];
  int nc; char cn[48][64]; long cv[48]; char sample[900]; long dropped_v;
  int nm; char mn[40][56]; double mlo[40], mhi[40];
} R;
static void jesc(const char *s){
  for(;*s;s++){ unsigned char c=(unsigned char)*s;
    if(c=='"'||c=='\\'){ putchar('\\'); putchar(c);} else if(c<0x20){ printf("\\u%04x",c);} else putchar(c); }
}
void res_begin(long id){ memset(&R,0,sizeof R); R.id=id; vh_cur_case=id; { const char *e=getenv("VH_CPU"); vh_set_cpu_budget(e?atoi(e):120); } printf("@case %ld\n",id); fflush(stdout); }
void res_eval(long n){ R.evals+=n; }
void res_bucket(const char *fmt, ...){
  char t[96]; va_list ap; va_start(ap,fmt); vsnprintf(t,sizeof t,fmt,ap); va_end(ap);
  for(int i=0;i<R.nb;i++) if(!strcmp(R.b[i],t)) return;
  if(R.nb<MAXB) strcpy(R.b[R.nb++],t);
}
void res_viol(const char *prop, const char *key, const char *fmt, ...){
  va_list ap;
  for(int i=0;i<R.nv;i++) if(!strcmp(R.vkey[i],key) && !strcmp(R.vprop[i],prop)){ R.dropped_v++; return; }
  if(R.nv>=MAXV){ R.dropped_v++; return; }
  snprintf(R.vprop[R.nv],sizeof R.vprop[0],"%s",prop);
  snprintf(R.vkey[R.nv],sizeof R.vkey[0],"%s",key);
  va_start(ap,fmt); vsnprintf(R.vdet[R.nv],sizeof R.vdet[0],fmt,ap); va_end(ap);
  R.nv++;
}
int res_nviol(void){ return R.nv; }
void res_count(const char *name, long n){
  for(int i=0;i<R.nc;i++) if(!strcmp(R.cn[i],name)){ R.cv[i]+=n; return; }
  if(R.nc<48){ snprintf(R.cn[R.nc],sizeof R.cn[0],"%s",name); R.cv[R.nc++]=n; }
}
void res_metric(const char *name, double v){
  if(v!=v) return;
  for(int i=0;i<R.nm;i++) if(!strcmp(R.mn[i],name)){ if(v<R.mlo[i])R.mlo[i]=v; if(v>R.mhi[i])R.mhi[i]=v; return; }
  if(R.nm<40){ snprintf(R.mn[R.nm],sizeof R.mn[0],"%s",name); R.mlo[R.nm]=R.mhi[R.nm]=v; R.nm++; }
}
void res_sample(const char *fmt, ...){ va_list ap; va_start(ap,fmt); vsnprintf(R.sample,sizeof R.sample,fmt,ap); va_end(ap); }
void res_end(void){
  printf("R {\"case\":%ld,\"evals\":%ld,\"buckets\":[",R.id,R.evals);
  for(int i=0;i<R.nb;i++){ printf("%s\"",i?",":""); jesc(R.b[i]); putchar('"'); }
  printf("],\"viol\":[");
  for(int i=0;i<R.nv;i++){ printf("%s{\"prop\":\"%s\",\"key\":\"",i?",":"",R.vprop[i]); jesc(R.vkey[i]); printf("\",\"detail\":\""); jesc(R.vdet[i]); printf("\"}"); }
  printf("],\"counts\":{");
  for(int i=0;i<R.nc;i++){ printf("%s\"",i?",":""); jesc(R.cn[i]); printf("\":%ld",R.cv[i]); }
  printf("},\"metrics\":{");
  for(int i=0;i<R.nm;i++){ printf("%s\"",i?",":""); jesc(R.mn[i]); printf("\":[%.6g,%.6g]",R.mlo[i],R.mhi[i]); }
  printf("},\"sample\":\""); jesc(R.sample); printf("\"}\n@done %ld\n",R.id);
  fflush(stdout);
}

/* ================= misc ================= */
static void on_vtalrm(int s){ (void)s; char b[64]; int n=snprintf(b,sizeof b,"\n@cpu %ld\n",vh_cur_case); if(write(1,b,n)<0){} _exit(75); }
void vh_set_cpu_budget(int seconds){
  struct itimerval it; memset(&it,0,sizeof it);
  /* user+system CPU of this process (page-fault-heavy loops spend their time in the kernel) */
  signal(SIGPROF,on_vtalrm);
  it.it_value.tv_sec=seconds; setitimer(ITIMER_PROF,&it,NULL);
}
void vh_dump(const char *name, const void *p, size_t n){
  const char *d=getenv("VH_DUMP"); if(!d||!*d) return;
  char path[512]; snprintf(path,sizeof path,"%s/%s",d,name);
  FILE *f=fopen(path,"wb"); if(!f) return; fwrite(p,1,n,f); fclose(f);
}
int drv_parse(int argc, char **argv, drvargs_t *a){
  if(argc<6){ fprintf(stderr,"usage: %s <mode> <seed> <quick|thorough> <first> <count>\n",argv[0]); return -1; }
  a->mode=argv[1]; a->seed=strtoull(argv[2],NULL,10); a->thorough=!strcmp(argv[3],"thorough");
  a->first=atol(argv[4]); a->count=atol(argv[5]);
  setvbuf(stdout,NULL,_IOFBF,1<<16);
  vh_trace=getenv("VH_TRACE")!=NULL;
  return 0;
}
