/* See spec.h.  Written from doc/*.tex; nothing here includes or calls lib/ code. */
#define _GNU_SOURCE
#include "spec.h"
#include "spec_dbtable.h"
#include <math.h>

/* ===================================================================== bit packing (spec section 2) */
typedef struct { const unsigned char *p; long nbits, pos; int eop; } br_t;
static void br_init(br_t *b,const unsigned char *p,long bytes){ b->p=p; b->nbits=bytes*8; b->pos=0; b->eop=0; }
static uint32_t br_read(br_t *b,int n){
  if(n<=0) return 0;
  if(b->pos+n>b->nbits){ b->eop=1; b->pos=b->nbits; return 0; }
  uint64_t v=0; long pos=b->pos;
  for(int i=0;i<n;i++,pos++) v|=(uint64_t)((b->p[pos>>3]>>(pos&7))&1)<<i;
  b->pos=pos; return (uint32_t)v;
}
typedef struct { buf_t b; long nbits; } bw_t;
static void bw_init(bw_t *w){ buf_init(&w->b); w->nbits=0; }
static void bw_write(bw_t *w,uint32_t v,int n){
  for(int i=0;i<n;i++){
    if((w->nbits&7)==0){ unsigned char z=0; buf_add(&w->b,&z,1); }
    if((v>>i)&1) w->b.p[w->nbits>>3]|=(unsigned char)(1<<(w->nbits&7));
    w->nbits++;
  }
}
static void bw_bytes(bw_t *w,const void *p,long n){ const unsigned char *c=p; for(long i=0;i<n;i++) bw_write(w,c[i],8); }

/* ===================================================================== helpers (spec section 9) */
int sp_ilog(uint32_t v){ int r=0; while(v){ r++; v>>=1; } return r; }
double sp_float32_unpack(uint32_t x){
  double mant=(double)(x&0x1fffff); int sign=(x&0x80000000u)!=0; int ex=(int)((x&0x7fe00000u)>>21);
  if(sign) mant=-mant;
  return ldexp(mant,ex-788);
}
long sp_lookup1_values(long entries,int dim){
  if(dim<=0||entries<=0) return 0;
  long v=(long)floor(pow((double)entries,1.0/dim));
  /* greatest v with v^dim <= entries */
  for(;;){ double a=1; int over=0; for(int i=0;i<dim;i++){ a*=(double)(v+1); if(a>(double)entries){ over=1; break; } } if(over) break; v++; }
  for(;v>0;){ double a=1; int over=0; for(int i=0;i<dim;i++){ a*=(double)v; if(a>(double)entries){ over=1; break; } } if(!over) break; v--; }
  return v;
}
static int low_neighbor(const int *X,int i){ int best=-1; for(int k=0;k<i;k++) if(X[k]<X[i] && (best<0||X[k]>X[best])) best=k; return best; }
static int high_neighbor(const int *X,int i){ int best=-1; for(int k=0;k<i;k++) if(X[k]>X[i] && (best<0||X[k]<X[best])) best=k; return best; }
static int render_point(int x0,int y0,int x1,int y1,int X){
  int dy=y1-y0, adx=x1-x0, ady=dy<0?-dy:dy; int err=ady*(X-x0); int off=err/adx;
  return dy<0? y0-off : y0+off;
}
static void render_line(int x0,int y0,int x1,int y1,int *v,long n){
  int dy=y1-y0, adx=x1-x0, ady=dy<0?-dy:dy; int base=dy/adx; int x=x0,y=y0,err=0; int sy= dy<0?base-1:base+1;
  ady-= (base<0?-base:base)*adx;
  if(x<n) v[x]=y;
  for(x=x0+1;x<x1;x++){ err+=ady; if(err>=adx){ err-=adx; y+=sy; } else y+=base; if(x<n) v[x]=y; }
}

/* ===================================================================== codebooks (spec section 3) */
static void book_free(sp_book *b){ free(b->len); free(b->mult); free(b->used_idx); free(b->cw); free(b->child); memset(b,0,sizeof *b); }
/* assign codewords: each entry in order takes the lowest-valued free codeword of its length (leftmost free node).
   Free subtrees are kept as (prefix,depth); the candidate of a free subtree for length L is prefix followed by zeros. */
void sp_book_finish(sp_book *b){
  free(b->used_idx); free(b->cw); free(b->child); b->used_idx=NULL; b->cw=NULL; b->child=NULL;
  b->finished=1; b->valid=0; b->used=0; b->nnodes=0;
  long n=b->nlen; if(n>b->entries) n=b->entries; if(n<0)n=0;
  for(long i=0;i<n;i++) if(b->len[i]) b->used++;
  b->minval=sp_float32_unpack(b->minraw); b->delta=sp_float32_unpack(b->deltaraw);
  if(b->used==0){ b->valid=0; return; }
  b->used_idx=malloc(sizeof(long)*b->used); b->cw=calloc(n,sizeof(uint32_t));
  { long k=0; for(long i=0;i<n;i++) if(b->len[i]) b->used_idx[k++]=i; }
  /* free list */
  struct { uint64_t prefix; int depth; } fl[40]; int nf=1; fl[0].prefix=0; fl[0].depth=0; int ok=1;
  if(b->used==1){
    long e=b->used_idx[0];
    if(b->len[e]==1){ b->cw[e]=0; b->valid=1; } else ok=0;
  } else {
    for(long q=0;q<b->used && ok;q++){
      long e=b->used_idx[q]; int L=b->len[e]; int bi=-1; uint64_t bc=0;
      for(int f=0;f<nf;f++) if(fl[f].depth<=L){ uint64_t c=fl[f].prefix<<(L-fl[f].depth); if(bi<0||c<bc){ bi=f; bc=c; } }
      if(bi<0){ ok=0; break; }       /* over-specified tree */
      b->cw[e]=(uint32_t)bc;
      int d=fl[bi].depth; uint64_t p=fl[bi].prefix; fl[bi]=fl[--nf];
      for(int i=d+1;i<=L;i++){ /* sibling subtrees along the path become free: prefix, zeros..., then a 1 */
        if(nf>=40){ ok=0; break; }
        fl[nf].prefix=((p<<(i-d-1))<<1)|1; fl[nf].depth=i; nf++;
      }
    }
    if(ok && nf!=0) ok=0;            /* under-specified tree */
    b->valid=ok;
  }
  if(!b->valid) return;
  /* decode trie */
  long cap=2*b->used+2; b->child=calloc(2*cap,sizeof(int)); b->nnodes=1;
  for(long q=0;q<b->used;q++){
    long e=b->used_idx[q]; int L=b->len[e]; long node=0;
    for(int i=L-1;i>=0;i--){
      int bit=(b->cw[e]>>i)&1;
      if(i==0){ b->child[2*node+bit]=-(int)(e+2); }
      else { int c=b->child[2*node+bit]; if(c<=0){ c=(int)b->nnodes++; b->child[2*node+bit]=c; } node=c; }
    }
  }
}
/* scalar-context decode: entry number, or -1 at end of packet */
static long book_decode(const sp_book *b,br_t *r){
  if(!b->valid) { r->eop=1; return -1; }
  if(b->used==1){ (void)br_read(r,1); if(r->eop) return -1; return b->used_idx[0]; }
  long node=0;
  for(;;){
    uint32_t bit=br_read(r,1); if(r->eop) return -1;
    int c=b->child[2*node+bit];
    if(c<0) return -(c)-2;
    if(c==0){ r->eop=1; return -1; }
    node=c;
  }
}
static void book_encode(const sp_book *b,bw_t *w,long entry){
  if(b->used==1){ bw_write(w,0,1); return; }
  int L=b->len[entry]; for(int i=L-1;i>=0;i--) bw_write(w,(b->cw[entry]>>i)&1,1);
}
/* VQ-context: the vector of entry e */
static void book_vector(const sp_book *b,long e,double *out){
  double last=0;
  if(b->lookup==1){
    long lv=sp_lookup1_values(b->entries,b->dim); long div=1;
    for(int i=0;i<b->dim;i++){ long off=(e/div)%lv; out[i]=(double)b->mult[off]*b->delta+b->minval+last; if(b->sequence_p) last=out[i]; div*=lv; }
  } else if(b->lookup==2){
    long off=e*b->dim;
    for(int i=0;i<b->dim;i++){ out[i]=(double)b->mult[off+i]*b->delta+b->minval+last; if(b->sequence_p) last=out[i]; }
  } else for(int i=0;i<b->dim;i++) out[i]=0;
}
static long book_lookup_values(const sp_book *b){
  if(b->lookup==1) return sp_lookup1_values(b->entries,b->dim);
  if(b->lookup==2) return b->entries*(long)b->dim;
  return 0;
}
static void book_write(const sp_book *b,bw_t *w){
  bw_write(w,0x564342,24); bw_write(w,(uint32_t)b->dim,16); bw_write(w,(uint32_t)b->entries,24);
  bw_write(w,b->ordered?1:0,1);
  long n=b->entries;
  if(!b->ordered){
    bw_write(w,b->sparse?1:0,1);
    for(long i=0;i<n;i++){
      int L= i<b->nlen? b->len[i]:1;
      if(b->sparse){ bw_write(w,L?1:0,1); if(L) bw_write(w,(uint32_t)(L-1),5); }
      else bw_write(w,(uint32_t)((L?L:1)-1),5);
    }
  } else {
    long i=0; int cur= (b->nlen>0 && b->len[0])?b->len[0]:1; bw_write(w,(uint32_t)(cur-1),5);
    while(i<n){
      long j=i; while(j<n && j<b->nlen && b->len[j]==cur) j++;
      if(j>=b->nlen && b->nlen<n && (b->nlen==0 || b->len[b->nlen-1]==cur)) j=n;   /* mutated entry count: pad the last run */
      bw_write(w,(uint32_t)(j-i),sp_ilog((uint32_t)(n-i)));
      i=j; cur++;
      if(cur>40) break;
    }
  }
  bw_write(w,(uint32_t)b->lookup,4);
  if(b->lookup==1||b->lookup==2){
    bw_write(w,b->minraw,32); bw_write(w,b->deltaraw,32); bw_write(w,(uint32_t)(b->value_bits-1),4); bw_write(w,b->sequence_p?1:0,1);
    long lv= b->nmult_override>=0? b->nmult_override : book_lookup_values(b);
    for(long i=0;i<lv;i++) bw_write(w, i<b->nmult?b->mult[i]:0, b->value_bits);
  }
}
/* strict parse of one codebook; returns 0 or -1 with reason */
static int book_parse(sp_book *b,br_t *r,char *err,size_t en){
  memset(b,0,sizeof *b); b->nmult_override=-1;
  if(br_read(r,24)!=0x564342){ snprintf(err,en,"codebook sync pattern"); return -1; }
  b->dim=(int)br_read(r,16); b->entries=(long)br_read(r,24); b->ordered=(int)br_read(r,1);
  if(r->eop){ snprintf(err,en,"codebook header truncated"); return -1; }
  if(b->entries<1){ snprintf(err,en,"codebook with no entries"); return -1; }
  b->nlen=b->entries; b->len=calloc(b->entries,1);
  if(!b->ordered){
    b->sparse=(int)br_read(r,1);
    for(long i=0;i<b->entries;i++){
      if(b->sparse){ if(br_read(r,1)) b->len[i]=(unsigned char)(br_read(r,5)+1); else b->len[i]=0; }
      else b->len[i]=(unsigned char)(br_read(r,5)+1);
      if(r->eop){ snprintf(err,en,"codeword lengths truncated"); return -1; }
    }
  } else {
    long i=0; int cur=(int)br_read(r,5)+1;
    while(i<b->entries){
      long num=(long)br_read(r,sp_ilog((uint32_t)(b->entries-i)));
      if(r->eop){ snprintf(err,en,"ordered lengths truncated"); return -1; }
      if(i+num>b->entries || cur>32){ snprintf(err,en,"ordered lengths overrun the entry count"); return -1; }
      for(long k=0;k<num;k++) b->len[i+k]=(unsigned char)cur;
      i+=num; cur++;
    }
  }
  b->lookup=(int)br_read(r,4);
  if(b->lookup>2){ snprintf(err,en,"codebook lookup type %d is reserved",b->lookup); return -1; }
  if(b->lookup){
    b->minraw=br_read(r,32); b->deltaraw=br_read(r,32); b->value_bits=(int)br_read(r,4)+1; b->sequence_p=(int)br_read(r,1);
    long lv=book_lookup_values(b);
    if(lv<0||lv>(1L<<26)){ snprintf(err,en,"lookup table too large"); return -1; }
    b->nmult=lv; b->mult=calloc(lv>0?lv:1,sizeof(uint32_t));
    for(long i=0;i<lv;i++){ b->mult[i]=br_read(r,b->value_bits); if(r->eop){ snprintf(err,en,"multiplicands truncated"); return -1; } }
  }
  if(r->eop){ snprintf(err,en,"codebook truncated"); return -1; }
  sp_book_finish(b);
  if(b->used==0){ snprintf(err,en,"codebook with no used entries"); return -1; }
  if(!b->valid){ snprintf(err,en,"codebook Huffman tree is over- or under-specified"); return -1; }
  return 0;
}
#include "spec_part2.inc"
#include "spec_part3.inc"
#include "spec_part4.inc"
