#include "mixed.h"
unsigned pick_modelmask(rng_t *r,int nlinks){ unsigned m=0; for(int i=0;i<nlinks&&i<31;i++) if(rng_chance(r,0.5)) m|=1u<<i; if(!m) m=1u<<rng_below(r,(uint32_t)nlinks); return m; }
int build_chain_mixed(rng_t *r,chaindesc_t *d,unsigned modelmask,int maxpk,int maxch,buf_t *out,size_t *link_off,char *desc,size_t dn){
  size_t dl=desc?strlen(desc):0;
  for(int i=0;i<d->nlinks;i++){
    if(link_off) link_off[i]=out->n;
    if(i<31 && (modelmask&(1u<<i))){
      sp_setup *S=NULL; for(int t=0;t<80;t++){ S=sp_gen_setup(r,(int)rng_below(r,SP_NPROFILES),1); if(S->channels<=maxch && ((long)S->channels<<S->bs1exp)<=(1L<<15)) break; sp_free_setup(S); S=NULL; }
      if(!S) return -9999;
      /* the rate field is free: some model links are very slow (long durations in front of later links: time arithmetic must stay in double) or very fast */
      if(rng_chance(r,0.3)){ static const uint32_t xr[]={1,2,25,1000,192000,768000}; S->rate=xr[rng_below(r,6)]; }
      pktlist_t pk; pktlist_init(&pk); int np=(int)rng_range(r,2,maxpk); sp_gen_stream(r,S,np,&pk,(int)rng_below(r,2));
      vh_mux_link(&pk,d,i,out); pktlist_free(&pk);
      if(desc && dl+60<dn) dl+=snprintf(desc+dl,dn-dl," {link %d model ch%d bs%d/%d %dpk}",i,S->channels,1<<S->bs0exp,1<<S->bs1exp,np);
      d->cfg[i].nsamples=-1; d->cfg[i].channels=S->channels; d->cfg[i].rate=(long)S->rate; sp_free_setup(S);
    } else {
      encres_t er; int ret=enc_run(&d->cfg[i],&er); if(ret){ encres_free(&er); return ret; }
      vh_mux_link(&er.pk,d,i,out); encres_free(&er);
    }
  }
  if(link_off) link_off[d->nlinks]=out->n;
  return 0;
}
