/* C18: independent instances on different threads produce what they produce alone (mode c18t; built with TSan and with
   ASan), and outputs do not depend on heap/stack contents (mode c18h: one pipeline per case, hash printed; the orchestrator
   runs it under different allocator fill patterns / stack dirt / valgrind and compares). */
#define _GNU_SOURCE
#include "common.h"
#include "spec.h"
#include <pthread.h>
#include <fenv.h>
#include <math.h>
#include <xmmintrin.h>

#define NPIPE 16
static const char *pipename[NPIPE]={"enc-vbr-mono","enc-vbr-stereo-hq","enc-managed","enc-5.1","enc-lowrate-multich","pkt-decode","vf-linear","vf-seek-script","vf-lapped-seeks","vf-halfrate",
  "model-stream-decode","headers-and-comments","vf-streaming","enc-then-decode-chain","enc-tiny-streams","enc-managed-silent-channels"};

/* shared READ-ONLY inputs, built once before any thread starts */
static buf_t g_chain, g_single; static pktlist_t g_pk, g_model;

static uint64_t hash_pktlist(const pktlist_t *pk,uint64_t h){ for(int i=0;i<pk->n;i++){ h=fnv1a(pk->v[i].data,pk->v[i].bytes,h); h=fnv1a(&pk->v[i].granulepos,8,h); } return h; }
static uint64_t do_encode(uint64_t seed,int ch,long rate,float q,int managed,long N,int sig){
  enccfg_t c; enccfg_default(&c); c.channels=ch; c.rate=rate; c.quality=q; c.sig=sig; c.sigseed=seed; c.nsamples=N; c.chunk=CHUNK_RANDOM;
  if(managed){ c.mode=ENC_MANAGED; c.br_nom=(long)(rate*ch*1.4); c.br_max=(long)(rate*ch*1.8); c.have_rm2=1; c.rm2_reservoir_bits_secs=0.5; c.rm2_bias=0.3; }
  encres_t er; if(enc_run(&c,&er)){ encres_free(&er); return 0x1111; }
  uint64_t h=hash_pktlist(&er.pk,0); encres_free(&er); return h;
}
static uint64_t do_pktdecode(const pktlist_t *pk){
  vorbis_info vi; vorbis_comment vc; vorbis_dsp_state vd; vorbis_block vb; ogg_packet op; uint64_t h=0;
  vorbis_info_init(&vi); vorbis_comment_init(&vc);
  for(int i=0;i<3;i++){ pkt_to_ogg(&pk->v[i],&op); if(vorbis_synthesis_headerin(&vi,&vc,&op)<0){ vorbis_comment_clear(&vc); vorbis_info_clear(&vi); return 0x2222; } }
  if(vorbis_synthesis_init(&vd,&vi)){ vorbis_comment_clear(&vc); vorbis_info_clear(&vi); return 0x3333; }
  vorbis_block_init(&vd,&vb);
  for(int i=3;i<pk->n;i++){ pkt_to_ogg(&pk->v[i],&op); if(vorbis_synthesis(&vb,&op)==0) vorbis_synthesis_blockin(&vd,&vb); float **pcm; int n; while((n=vorbis_synthesis_pcmout(&vd,&pcm))>0){ for(int c=0;c<vi.channels;c++) h=fnv1a(pcm[c],sizeof(float)*n,h); vorbis_synthesis_read(&vd,n); } }
  vorbis_block_clear(&vb); vorbis_dsp_clear(&vd); vorbis_comment_clear(&vc); vorbis_info_clear(&vi);
  return h;
}
static void dirty_stack(int pattern);
static __thread int g_poison=-1;   /* c18h: byte pattern laid over the dead stack before every vorbisfile call of a pipeline (set per case from VH_STACK_POISON) */
static uint64_t do_vf(const buf_t *s,uint64_t seed,int mode){
  OggVorbis_File vf; memsrc_t ms; rng_t r; rng_seed(&r,seed,0x18,(uint64_t)mode); uint64_t h=0; float **pcm; int bs;
  memsrc_init(&ms,s->p,s->n,mode==4?0:1); memsrc_schedule(&ms,RS_RANDOM,3000,seed);
  if(ov_open_callbacks(&ms,&vf,NULL,0,memsrc_cb(&ms))) return 0x4444;
  ogg_int64_t T=ov_pcm_total(&vf,-1);
  if(mode==3) ov_halfrate(&vf,1);
  if(mode==0||mode==3||mode==4){ long g; while((g=ov_read_float(&vf,&pcm,2048,&bs))>0){ int ch=ov_info(&vf,bs)->channels; for(int c=0;c<ch;c++) h=fnv1a(pcm[c],sizeof(float)*g,h); } h=fnv1a(&g,sizeof g,h); }
  else for(int i=0;i<40;i++){
    ogg_int64_t p= T>0?(ogg_int64_t)rng_range(&r,0,(long)T):0; int rs;
    if(g_poison>=0) dirty_stack(g_poison);
    if(mode==1) rs= rng_chance(&r,0.5)?ov_pcm_seek(&vf,p):ov_time_seek_page(&vf,(double)p/44100.0);
    else if(i%7==3){ /* a time-based lapped seek from a handle that sits unprimed at the end of the data (nothing to lap from: the lap buffer is all there is) */
      double tt=ov_time_total(&vf,-1)*((double)(p%1000)/1000.0); if(T>200) ov_pcm_seek(&vf,T-100); /* be inside the last link already, so that the byte seek keeps the (then unprimed) decoder */ int r0=ov_raw_seek(&vf,(ogg_int64_t)s->n-1); rs= (i&8)?ov_time_seek_lap(&vf,tt):ov_time_seek_page_lap(&vf,tt); if(vh_trace) fprintf(stderr,"unprimed-eof lapped time seek: raw_seek %d, lapped seek(%.4f) %d, tell %lld\n",r0,tt,rs,(long long)ov_pcm_tell(&vf)); }
    else rs= rng_chance(&r,0.5)?ov_pcm_seek_lap(&vf,p):ov_raw_seek_lap(&vf,rng_range(&r,0,(long)s->n));
    h=fnv1a(&rs,sizeof rs,h); ogg_int64_t t=ov_pcm_tell(&vf); h=fnv1a(&t,sizeof t,h);
    char buf[4096]; long g=ov_read(&vf,buf,sizeof buf,0,2,1,&bs); if(g>0) h=fnv1a(buf,g,h);
    g=ov_read_float(&vf,&pcm,700,&bs); if(g>0){ int ch=ov_info(&vf,bs)->channels; for(int c=0;c<ch;c++) h=fnv1a(pcm[c],sizeof(float)*g,h); }
  }
  ov_clear(&vf);
  return h;
}
/* a time-based lapped seek from a handle that was moved, by a byte seek, to the very end of its (single) link: the decoder is still set up but unprimed, so the lap
   buffer is all the "old audio" there is */
static uint64_t do_unprimed_lap(const buf_t *s,uint64_t seed){
  OggVorbis_File vf; memsrc_t ms; uint64_t h=0; float **pcm; int bs; memsrc_init(&ms,s->p,s->n,1);
  if(ov_open_callbacks(&ms,&vf,NULL,0,memsrc_cb(&ms))) return 0x7777;
  for(int k=0;k<3;k++) ov_read_float(&vf,&pcm,1024,&bs);
  for(int v=0;v<2;v++){
    if(g_poison>=0) dirty_stack(g_poison);
    int r0=ov_raw_seek(&vf,ov_raw_total(&vf,-1)-1); double tt=ov_time_total(&vf,-1)*(0.2+0.5*(double)(seed%100)/100.0);
    int rs= v? ov_time_seek_page_lap(&vf,tt):ov_time_seek_lap(&vf,tt); h=fnv1a(&r0,sizeof r0,h); h=fnv1a(&rs,sizeof rs,h);
    if(vh_trace) fprintf(stderr,"unprimed lapped time seek %d: raw_seek %d lapped %d tell %lld\n",v,r0,rs,(long long)ov_pcm_tell(&vf));
    long got=0; while(got<3000){ long g=ov_read_float(&vf,&pcm,(int)(3000-got),&bs); if(g<=0) break; int ch=ov_info(&vf,bs)->channels; for(int c=0;c<ch;c++) h=fnv1a(pcm[c],sizeof(float)*g,h); got+=g; }
  }
  ov_clear(&vf); return h;
}
static uint64_t do_headers(uint64_t seed){
  vorbis_info vi; vorbis_comment vc; vorbis_dsp_state vd; ogg_packet a,b,c; uint64_t h=0; rng_t r; rng_seed(&r,seed,0x181,0);
  vorbis_info_init(&vi); if(vorbis_encode_init_vbr(&vi,2,44100,(float)rng_unit(&r))){ return 0x5555; }
  vorbis_comment_init(&vc); for(int i=0;i<20;i++){ char t[40]; snprintf(t,sizeof t,"TAG%d=%llx",i,(unsigned long long)rng_next(&r)); vorbis_comment_add(&vc,t); }
  vorbis_analysis_init(&vd,&vi); vorbis_analysis_headerout(&vd,&vc,&a,&b,&c);
  h=fnv1a(a.packet,a.bytes,h); h=fnv1a(b.packet,b.bytes,h); h=fnv1a(c.packet,c.bytes,h);
  for(int i=0;i<20;i++){ char t[16]; snprintf(t,sizeof t,"tag%d",i); char *q=vorbis_comment_query(&vc,t,0); if(q) h=fnv1a(q,strlen(q),h); }
  vorbis_dsp_clear(&vd); vorbis_comment_clear(&vc); vorbis_info_clear(&vi);
  return h;
}
static uint64_t pipeline(int kind,uint64_t seed){
  switch(kind){
  case 0: return do_encode(seed,1,22050,0.2f,0,9000,SIG_BURSTS);
  case 1: return do_encode(seed,2,44100,0.9f,0,14000,SIG_MULTI);
  case 2: return do_encode(seed,2,44100,0.4f,1,20000,SIG_CLICKS);
  case 3: return do_encode(seed,6,48000,0.5f,0,8000,SIG_NOISE);
  case 4: return do_encode(seed,3,8000,0.1f,0,6000,SIG_SWEEP);
  case 5: return do_pktdecode(&g_pk);
  case 6: return do_vf(&g_chain,seed,0);
  case 7: return do_vf(&g_chain,seed,1);
  case 8: { uint64_t h=do_vf(&g_chain,seed,2), x=do_unprimed_lap(&g_single,seed); return fnv1a(&x,8,h); }
  case 9: return do_vf(&g_single,seed,3);
  case 10: return do_pktdecode(&g_model);
  case 11: return do_headers(seed);
  case 12: return do_vf(&g_chain,seed,4);
  case 14: { static const long Ns[]={0,1,7,20,32,33,63,64,129}; uint64_t h=0; for(int k=0;k<9;k++){ uint64_t x=do_encode(seed+k,1+(k&1),k%3?44100:8000,0.3f,0,Ns[k],k%2?SIG_NOISE:SIG_DC); h=fnv1a(&x,8,h); } return h; }   /* streams shorter than one block */
  case 15: { /* managed mode reads all candidate packets of a block; channels that are digitally silent over whole blocks (each in its own segments / one channel throughout /
                everything until a burst) leave most per-candidate tables unassigned */
    uint64_t h=0, x; x=do_encode(seed,2,44100,0.4f,1,16000,SIG_GATED); h=fnv1a(&x,8,h); x=do_encode(seed+1,2,32000,0.3f,1,12000,SIG_ONSET); h=fnv1a(&x,8,h);
    x=do_encode(seed+2,3,48000,0.5f,1,9000,SIG_GATED); h=fnv1a(&x,8,h); return h; }
  default: { /* encode, mux, decode through vorbisfile */
    enccfg_t c; enccfg_default(&c); c.channels=2; c.rate=32000; c.quality=0.6f; c.sig=SIG_MULTI; c.sigseed=seed; c.nsamples=7000; encres_t er; if(enc_run(&c,&er)){ encres_free(&er); return 0x6666; }
    buf_t s; buf_init(&s); mux_stream(&er.pk,(int)seed,PAGE_FILL,900,seed,&s); uint64_t h=do_vf(&s,seed,0); buf_free(&s); encres_free(&er); return h; }
  }
}
static void build_shared(uint64_t seed){
  rng_t r; rng_seed(&r,seed,0x18a,0); chaindesc_t cd;
  buf_init(&g_chain); gen_chain(&r,4,9000,GC_MULTICH,&cd); cd.nlinks= cd.nlinks<3?3:cd.nlinks; for(int i=0;i<cd.nlinks;i++) if(cd.cfg[i].rate==0){ cd.cfg[i]=cd.cfg[0]; cd.cfg[i].sigseed+=i; cd.serial[i]=cd.serial[0]+31*i+1; cd.policy[i]=cd.policy[0]; cd.fill[i]=cd.fill[0]; }
  build_chain(&cd,&g_chain,NULL);
  { enccfg_t c; enccfg_default(&c); c.nsamples=16000; c.sigseed=seed; c.sig=SIG_CLICKS; encres_t er; enc_run(&c,&er); g_pk=er.pk; buf_init(&g_single); mux_stream(&g_pk,77,PAGE_DEFAULT,0,1,&g_single); }
  { pktlist_init(&g_model); sp_setup *S=sp_gen_setup(&r,8,1); sp_gen_stream(&r,S,24,&g_model,1); sp_free_setup(S); }
}
static void __attribute__((noinline)) dirty_stack(int pattern){ volatile char junk[1<<19]; memset((void*)junk,pattern,sizeof junk); (void)junk[12345]; }

/* ---------------- c18h: one pipeline, print hash ---------------- */
static void case_c18h(const drvargs_t *a,long id){
  res_begin(id);
  int kind=(int)(id%NPIPE); uint64_t seed=hash64(a->seed*1000003ULL+(uint64_t)(id/NPIPE));
  const char *pz=getenv("VH_STACK_POISON"); if(pz){ g_poison=(int)strtol(pz,NULL,0)&255; dirty_stack(g_poison); }
  int rm0=fegetround(); unsigned cs0=_mm_getcsr();
  uint64_t h=pipeline(kind,seed); res_eval(1);
  if(fegetround()!=rm0 || (_mm_getcsr()&~0x3fu)!=(cs0&~0x3fu)) res_viol("C18","fpu-state-changed","rounding mode %d -> %d, mxcsr %x -> %x in %s",rm0,fegetround(),cs0,_mm_getcsr(),pipename[kind]);
  /* the same pipeline again in the same process, with the caller's rounding mode switched and restored around nothing: pure repeatability */
  uint64_t h2=pipeline(kind,seed); res_eval(1);
  if(h2!=h) res_viol("C18","not-repeatable-in-process","%s: %016llx then %016llx",pipename[kind],(unsigned long long)h,(unsigned long long)h2);
  res_bucket("%s",pipename[kind]);
  res_sample("%s seed %llu hash=%016llx",pipename[kind],(unsigned long long)seed,(unsigned long long)h);
  res_end();
}

/* ---------------- c18t: T threads, random pipelines, compare with solitary hashes ---------------- */
typedef struct { int kind; uint64_t seed; uint64_t out; int rounds; pthread_barrier_t *bar; int fpu_bad; } job_t;
static void *worker(void *p){
  job_t *j=p; pthread_barrier_wait(j->bar);
  int rm0=fegetround(); unsigned cs0=_mm_getcsr();
  j->out=pipeline(j->kind,j->seed);
  if(fegetround()!=rm0 || (_mm_getcsr()&~0x3fu)!=(cs0&~0x3fu)) j->fpu_bad=1;
  return NULL;
}
static void case_c18t(const drvargs_t *a,long id){
  res_begin(id);
  rng_t r; rng_seed(&r,a->seed,0x18c,(uint64_t)id);
  int T=16; job_t jobs[16]; pthread_t th[16]; pthread_barrier_t bar;
  uint64_t alone[16];
  for(int i=0;i<T;i++){ jobs[i].kind=(int)rng_below(&r,NPIPE); if(i<NPIPE && id%2==0) jobs[i].kind=(i+(int)id)%NPIPE; jobs[i].seed=hash64(a->seed+id*131+i%5); jobs[i].out=0; jobs[i].fpu_bad=0; jobs[i].bar=&bar; }
  for(int i=0;i<T;i++) alone[i]=pipeline(jobs[i].kind,jobs[i].seed);       /* solitary reference, before any thread exists */
  pthread_barrier_init(&bar,NULL,T);
  for(int i=0;i<T;i++) pthread_create(&th[i],NULL,worker,&jobs[i]);
  for(int i=0;i<T;i++) pthread_join(th[i],NULL);
  pthread_barrier_destroy(&bar);
  for(int i=0;i<T;i++){ res_eval(1);
    if(jobs[i].out!=alone[i]) res_viol("C18","differs-among-threads","%s (seed %llu): alone %016llx, among %d threads %016llx",pipename[jobs[i].kind],(unsigned long long)jobs[i].seed,(unsigned long long)alone[i],T,(unsigned long long)jobs[i].out);
    else res_bucket("thr|%s",pipename[jobs[i].kind]);
    if(jobs[i].fpu_bad) res_viol("C18","fpu-state-changed","%s",pipename[jobs[i].kind]); }
  res_sample("16 threads: kinds %d %d %d %d ...",jobs[0].kind,jobs[1].kind,jobs[2].kind,jobs[3].kind);
  res_end();
}

int main(int argc,char **argv){
  drvargs_t a; if(drv_parse(argc,argv,&a)) return 2;
  build_shared(a.seed);
  for(long i=a.first;i<a.first+a.count;i++){
    if(!strcmp(a.mode,"c18h")) case_c18h(&a,i);
    else if(!strcmp(a.mode,"c18t")) case_c18t(&a,i);
    else { fprintf(stderr,"unknown mode %s\n",a.mode); return 2; }
  }
  return 0;
}
