/* C01: libvorbis packet decoder vs the independent Vorbis I model (spec.c) on model-generated streams;
   C05: encoder output through the strict parser and the model's bit accounting. */
#define _GNU_SOURCE
#include "common.h"
#include "spec.h"
#include <math.h>
void sp_set_gen_amp(double a);

typedef struct { vorbis_info vi; vorbis_comment vc; vorbis_dsp_state vd; vorbis_block vb; int live; } ldec_t;
static int ldec_open(ldec_t *d,const pktlist_t *pk,int *herr){
  ogg_packet op; memset(d,0,sizeof *d); vorbis_info_init(&d->vi); vorbis_comment_init(&d->vc); *herr=0;
  for(int i=0;i<3;i++){ pkt_to_ogg(&pk->v[i],&op); int r=vorbis_synthesis_headerin(&d->vi,&d->vc,&op); if(r){ *herr=r*10-i; vorbis_comment_clear(&d->vc); vorbis_info_clear(&d->vi); return -1; } }
  if(vorbis_synthesis_init(&d->vd,&d->vi)){ *herr=-9999; vorbis_comment_clear(&d->vc); vorbis_info_clear(&d->vi); return -1; }
  vorbis_block_init(&d->vd,&d->vb); d->live=1; return 0;
}
static void ldec_close(ldec_t *d){ if(d->live){ vorbis_block_clear(&d->vb); vorbis_dsp_clear(&d->vd); vorbis_comment_clear(&d->vc); vorbis_info_clear(&d->vi); d->live=0; } }

static void case_c01(const drvargs_t *a,long id){
  rng_t r; rng_seed(&r,a->seed,1,(uint64_t)id);
  res_begin(id);
  int profile=(int)(id%SP_NPROFILES); int sc= a->thorough? (id%50==49?2:1) : (id%100==99?2:1);   /* size class 2: up to 255 channels, long blocks drawn freely */
  sp_set_gen_amp( (id%7==3)?1e4:1.0 );
  sp_setup *S=sp_gen_setup(&r,profile,sc); char desc[400]; sp_describe(S,desc,sizeof desc);
  int np=(int)rng_range(&r,6,a->thorough?40:16);
  if(((long)S->channels<<S->bs1exp)>(1L<<18)) np=VH_MIN(np,6);
  pktlist_t pk; pktlist_init(&pk); int endtrim=(int)rng_below(&r,2);
  sp_gen_stream(&r,S,np,&pk,endtrim);
  vh_dump("h0.bin",pk.v[0].data,pk.v[0].bytes); vh_dump("h1.bin",pk.v[1].data,pk.v[1].bytes); vh_dump("h2.bin",pk.v[2].data,pk.v[2].bytes);
  /* the model reads its own headers back through the strict parser (self-check of writer and parser) */
  sp_setup *P=NULL; char err[200];
  if(sp_parse_headers(pk.v[0].data,pk.v[0].bytes,pk.v[1].data,pk.v[1].bytes,pk.v[2].data,pk.v[2].bytes,&P,err,sizeof err)){
    res_viol("C01","harness:model-rejects-own-headers","%s: %s [%s]",err,desc,sp_profile_name(profile)); goto out;
  }
  ldec_t L; int herr;
  res_eval(1);
  if(ldec_open(&L,&pk,&herr)){ res_viol("C01","valid-headers-rejected","libvorbis refused headers the specification accepts (code %d): %s [%s]",herr,desc,sp_profile_name(profile)); goto out; }
  {
    sp_dec *D=sp_dec_new(P); int ch=S->channels; if(vh_trace) sp_dec_rawblock(D); double prevnorm=0; double prevch[256]; memset(prevch,0,sizeof prevch); int prev_bad=0, prev_f0=0; long ncompared=0; long total=0; int ok=1; double worst=0; long f0blocks=0;
    ogg_int64_t gprev=0;
    for(int i=3;i<pk.n && ok;i++){
      ogg_packet op; pkt_to_ogg(&pk.v[i],&op); sp_pktinfo I; double **ref;
      sp_dec_packet(D,pk.v[i].data,pk.v[i].bytes,&I,&ref);
      if(!I.ok||I.eop){ res_viol("C01","harness:model-cannot-decode-own-packet","packet %d ok=%d eop=%d: %s",i-3,I.ok,I.eop,desc); ok=0; break; }
      int rs=vorbis_synthesis(&L.vb,&op); res_eval(1);
      if(rs){ res_viol("C01","valid-packet-rejected","vorbis_synthesis returned %d for packet %d (mode %d, W %d): %s [%s]",rs,i-3,I.mode,I.blockflag,desc,sp_profile_name(profile)); ok=0; break; }
      if(vh_trace && rs==0 && L.vb.pcm){ double **raw=sp_dec_rawblock(D); for(int c=0;c<ch;c++){ double mx=0,mv=0; long mi=0; for(long t=0;t<I.n;t++){ double d=fabs(L.vb.pcm[c][t]-raw[c][t]); if(d>mx){mx=d;mi=t;} if(fabs(raw[c][t])>mv)mv=fabs(raw[c][t]); }
          fprintf(stderr,"[cmp] packet %d ch %d: max |lib-model| unwindowed %.4g at t=%ld (peak %.4g)\n",i-3,c,mx,mi,mv);
          if(mx>1e-4*mv && mv>0 && getenv("SP_BINS")){ long N=I.n; int shown=0; /* forward MDCT of the difference: which bins disagree */
            for(long k=0;k<N/2 && shown<24;k++){ double sd=0,sm=0; for(long t=0;t<N;t++){ double cs=cos(2*M_PI/N*(t+0.5+N/4.0)*(k+0.5)); sd+=(L.vb.pcm[c][t]-raw[c][t])*cs; sm+=raw[c][t]*cs; } sd*=2.0/N; sm*=2.0/N;
              if(fabs(sd)>1e-5*mv){ fprintf(stderr,"   bin %ld: model %.6g lib-model %.6g\n",k,sm,sd); shown++; } } } } }
      long used=oggpack_bits(&L.vb.opb);
      if(used>I.bits_used+0 && used>8*pk.v[i].bytes) { /* libvorbis ran out of bits where the model did not */ res_viol("C01","decoder-ran-out-of-bits","packet %d: libvorbis read position %ld, model consumed %ld of %ld: %s",i-3,used,I.bits_used,8*pk.v[i].bytes,desc); ok=0; break; }
      if(used!=I.bits_used){ res_viol("C01","bit-consumption-differs","packet %d: libvorbis consumed %ld bits, model %ld: %s [%s]",i-3,used,I.bits_used,desc,sp_profile_name(profile)); ok=0; break; }
      if(vorbis_synthesis_blockin(&L.vd,&L.vb)){ res_viol("C01","blockin-refused","packet %d: %s",i-3,desc); ok=0; break; }
      /* expected count, with end trimming from the granule position on the last packet */
      long expect=I.nout;
      if(op.e_o_s && op.granulepos>=0){ ogg_int64_t full=gprev+I.nout; if(op.granulepos<full){ long cut=(long)(full-op.granulepos); expect= cut>I.nout?0:I.nout-cut; } }
      gprev+=I.nout;
      float **pcm; long got=0; int n;
      double tol=(I.floor0_used||prev_f0?2e-2:1e-4)*(prevnorm+I.norm)+1e-7; int skip=I.nonfinite || prev_bad || !(prevnorm+I.norm<1e25);
      if(!skip && expect>0) for(int c=0;c<ch&&c<256;c++) if(prevch[c]==0 && I.chnorm[c]==0){ res_count(I.floor0_used||prev_f0?"silent_channel_blocks_judged_exactly_floor0":"silent_channel_blocks_judged_exactly",1); }
      while((n=vorbis_synthesis_pcmout(&L.vd,&pcm))>0){
        if(!skip) for(int c=0;c<ch&&ok;c++) for(int k=0;k<n;k++){
          long ix=got+k; if(ix>=expect) break;
          double d=fabs((double)pcm[c][k]-ref[c][ix]);
          /* per-channel scale as well: once coupling is undone a channel's samples depend on its own spectrum only, so a quiet (or silent) channel next to a loud one is
             held to its own norm (the coupling operands' magnitudes are already part of it) */
          double tolc= c<256? (I.floor0_used||prev_f0?2e-2:1e-4)*(prevch[c]+I.chnorm[c]) + 1e-7 : tol;
          if(d<=tol && !(d<=tolc)){ res_viol("C01",I.floor0_used?"sample-differs-floor0:channel-scale":"sample-differs:channel-scale","packet %d (mode %d W %d n %ld) ch %d sample %ld: libvorbis %.9g model %.9g (channel tolerance %.3g, channel norm %.3g, block norm %.3g): %s [%s]",i-3,I.mode,I.blockflag,I.n,c,ix,pcm[c][k],ref[c][ix],tolc,prevch[c]+I.chnorm[c],prevnorm+I.norm,desc,sp_profile_name(profile)); ok=0; break; }
          if(!(d<=tol)){ res_viol("C01",I.floor0_used?"sample-differs-floor0":"sample-differs","packet %d (mode %d W %d n %ld) ch %d sample %ld: libvorbis %.9g model %.9g (tol %.3g, norm %.3g): %s [%s]",i-3,I.mode,I.blockflag,I.n,c,ix,pcm[c][k],ref[c][ix],tol,prevnorm+I.norm,desc,sp_profile_name(profile)); ok=0; break; }
          if(prevnorm+I.norm>0){ double rel=d/(prevnorm+I.norm+1e-30); if(rel>worst) worst=rel; }
        }
        got+=n; vorbis_synthesis_read(&L.vd,n);
      }
      if(ok && got!=expect){ res_viol("C01","sample-count-differs","packet %d (W %d, eos %d): libvorbis produced %ld samples, specification %ld: %s [%s]",i-3,I.blockflag,(int)op.e_o_s,got,expect,desc,sp_profile_name(profile)); ok=0; }
      if(skip) res_count(I.nonfinite==2||prev_bad==2?"blocks_not_judged_coupling_branch_undecidable":"blocks_not_judged_ill_conditioned_or_huge",1); else { res_count("blocks_compared",1); ncompared++; }
      if(I.floor0_used) f0blocks++;
      total+=got; prevnorm=I.norm; prev_bad=I.nonfinite; prev_f0=I.floor0_used; for(int c=0;c<ch&&c<256;c++) prevch[c]=I.chnorm[c];
    }
    if(ok && ncompared==0) res_count("streams_with_no_block_judged",1);
    if(ok && ncompared>0){
      int f0=0,f1=0,rt=0; for(int i=0;i<P->nfloors;i++){ if(P->floors[i].type==0)f0=1; else f1=1; } for(int i=0;i<P->nres;i++) rt|=1<<P->res[i].type;
      res_bucket("%s|bs%d-%d|ch%s|f%s|r%d|trim%d",sp_profile_name(profile),P->bs0exp,P->bs1exp,ch==1?"1":ch==2?"2":ch<=8?"3-8":"9+",f0&&f1?"01":f0?"0":"1",rt,endtrim);
      res_count("samples_compared",total*ch); res_metric(f0blocks?"worst_rel_error_floor0":"worst_rel_error",worst);
    }
    sp_dec_free(D);
    if(ok){ /* the same stream through vorbisfile: the total and the delivered count are what the specification (and the granule positions) say */
      buf_t phys; buf_init(&phys); mux_stream(&pk,(int)(id*7+1),(int)rng_below(&r,PAGE_NKINDS),(int)rng_range(&r,1,9000),rng_next(&r),&phys);
      OggVorbis_File vf; memsrc_t ms; memsrc_init(&ms,phys.p,phys.n,1); res_eval(1);
      int orc=ov_open_callbacks(&ms,&vf,NULL,0,memsrc_cb(&ms));
      if(orc) res_viol("C01","vorbisfile-refuses-valid-stream","ov_open_callbacks %d: %s [%s]",orc,desc,sp_profile_name(profile));
      else {
        ogg_int64_t want=pk.v[pk.n-1].granulepos, tot=ov_pcm_total(&vf,-1); long cnt=0,g; float **pcm; int bs;
        while((g=ov_read_float(&vf,&pcm,4096,&bs))>0) cnt+=g;
        if(tot!=want) res_viol("C01","vorbisfile-total-differs","ov_pcm_total %lld, specification/granule positions %lld: %s [%s]",(long long)tot,(long long)want,desc,sp_profile_name(profile));
        if(g<0||cnt!=want) res_viol("C01","vorbisfile-count-differs","linear read delivered %ld samples (last return %ld), specification %lld: %s [%s]",cnt,g,(long long)want,desc,sp_profile_name(profile));
        if(cnt!=total) res_viol("C01","vorbisfile-vs-packet-count","vorbisfile %ld samples, packet API %ld",cnt,total);
        ov_clear(&vf); res_count("vorbisfile_totals_checked",1);
      }
      buf_free(&phys);
    }
  }
  ldec_close(&L);
out:
  res_sample("%s [%s] %d packets",desc,sp_profile_name(profile),np);
  sp_free_setup(P); sp_free_setup(S); pktlist_free(&pk);
  res_end();
}

/* ------------------------------------------------------------------ C05 */
static void case_c05(const drvargs_t *a,long id){
  rng_t r; rng_seed(&r,a->seed,5,(uint64_t)id);
  res_begin(id);
  enccfg_t c; enccfg_default(&c); char desc[400];
  static const long rates[]={8000,11025,16000,22050,32000,44100,48000,96000,12000,64000,192000,9000,15000,19000,26000,40000,50000};
  c.rate=rates[rng_below(&r,17)]; static const int chs[]={1,2,2,1,3,6,4,8,5,2}; c.channels=chs[rng_below(&r,10)];
  if(id%60==59){ c.channels=(int)rng_range(&r,9,255); }   /* both tiers */
  c.quality=(float)(-0.1+1.1*rng_unit(&r)); if(rng_chance(&r,0.2)) c.quality= rng_chance(&r,0.5)?-0.1f:1.0f;
  int managed=0, hardmax=0;
  int mk=(int)rng_below(&r,10);
  if(mk>=6){ managed=1; c.mode= rng_chance(&r,0.7)?ENC_MANAGED:ENC_INIT_ABR; long nom=(long)(c.rate*c.channels*(0.6+1.8*rng_unit(&r))); c.br_nom=nom; c.br_max=-1; c.br_min=-1;
    int k=(int)rng_below(&r,4); if(k==1){ c.br_max=(long)(nom*(1.02+0.3*rng_unit(&r))); hardmax=1; } else if(k==2) c.br_min=(long)(nom*0.8); else if(k==3){ c.br_max=nom; c.br_min=nom; hardmax=1; }
    if(c.mode==ENC_MANAGED && rng_chance(&r,0.5)){ c.have_rm2=1; static const double rs[]={0.02,0.1,0.5,2,4}; c.rm2_reservoir_bits_secs=rs[rng_below(&r,5)]; c.rm2_bias=rng_unit(&r); c.rm2_damping= rng_chance(&r,0.5)?0:0.2+2*rng_unit(&r); } }
  else if(mk==5) c.mode=ENC_INIT_VBR;
  if(managed && c.mode==ENC_MANAGED && id%8==3){ c.rm2_disable=1; managed=0; hardmax=0; }   /* limits given to setup_managed, management then switched off by control request: an unmanaged stream, judged as such */
  if(managed && id%4==1) c.direct_probe=1;                                                  /* vorbis_analysis(vb,&op) is refused on managed streams; the application carries on with addblock on that block */
  if(id%16==9){ /* a hard maximum that bites for many blocks in a row (as C04's stratum): truncation upon truncation */
    managed=1; hardmax=1; c.mode=ENC_MANAGED; c.rm2_disable=0; if(c.channels>2) c.channels=2; if(c.rate<32000) c.rate=44100; c.br_nom=(long)(c.rate*c.channels*(0.45+0.35*rng_unit(&r))); c.br_max=-1; c.br_min=-1;
    c.have_rm2=1; c.rm2_reservoir_bits_secs=0.05+0.2*rng_unit(&r); c.rm2_bias=rng_unit(&r)*0.5; c.rm2_damping=0; c.rm2_avg_off=1; c.rm2_max_kbps=(long)(c.br_nom*(0.6+0.4*rng_unit(&r))/1000); }
  if(id%50==17){ c.channels= 254+(int)rng_below(&r,3); c.rate=44100; }                       /* the ends of the 8-bit channel field: 254, 255 - and 256, which must be refused */
  if(c.mode==ENC_VBR||c.mode==ENC_MANAGED){ if(rng_chance(&r,0.2)) c.coupling_off=1; if(rng_chance(&r,0.2)) c.lowpass_khz=2+rng_unit(&r)*(c.rate/2000.0); if(rng_chance(&r,0.2)) c.impulse_block_bias=-15*rng_unit(&r); }
  static const int sigs[]={SIG_SILENCE,SIG_DC,SIG_TONE,SIG_MULTI,SIG_NOISE,SIG_CLICKS,SIG_SWEEP,SIG_OVER,SIG_DENORM,SIG_ALT,SIG_BURSTS,SIG_IMPULSE,SIG_ENDCLICK};
  c.sig=sigs[rng_below(&r,13)]; if(id%16==9) c.sig=SIG_NOISE; c.sigseed=rng_next(&r); c.nsamples=rng_range(&r,2000,a->thorough?60000:24000); if(id%16==9 && c.nsamples<20000) c.nsamples=20000+(long)rng_below(&r,30000); if(c.channels>8) c.nsamples=rng_range(&r,1000,5000);
  c.chunk=(int)rng_below(&r,CHUNK_NKINDS); if(c.chunk==CHUNK_1) c.chunk=CHUNK_RANDOM; c.lazy=(int)rng_below(&r,2);
  enccfg_json(&c,desc,sizeof desc);
  encres_t er; int ret=enc_run(&c,&er);
  if(!ret && c.rm2_disable){ res_count("encodes_with_management_switched_off_by_ctl",1); if(er.managed) res_viol("C05","management-still-reported-active","OV_ECTL_RATEMANAGE2_SET(NULL) then GET says active: %s",desc); }
  if(!ret && er.direct_probe_bad) res_viol("C05","direct-packet-request-not-refused-on-managed-stream","%ld blocks: %s",er.direct_probe_bad,desc);
  if(ret){ res_count("setups_refused",1); res_sample("refused(%d): %s",ret,desc); encres_free(&er); res_end(); return; }
  res_count("encodes",1);
  /* headers: libvorbis, strict parser, field equality */
  sp_setup *P=NULL; char err[200]; ldec_t L; int herr; int ok=1; res_eval(1);
  if(sp_parse_headers(er.pk.v[0].data,er.pk.v[0].bytes,er.pk.v[1].data,er.pk.v[1].bytes,er.pk.v[2].data,er.pk.v[2].bytes,&P,err,sizeof err)){
    res_viol("C05","strict-parser-rejects-encoder-headers","%s: %s",err,desc); ok=0; }
  if(ldec_open(&L,&er.pk,&herr)){ res_viol("C05","header-rejected","libvorbis headerin/init code %d: %s",herr,desc); sp_free_setup(P); encres_free(&er); res_end(); return; }
  if(ok){
    if(P->channels!=er.channels||(long)P->rate!=er.rate||(1L<<P->bs0exp)!=er.bs0||(1L<<P->bs1exp)!=er.bs1||P->br_max!=er.bitrate_upper||P->br_nom!=er.bitrate_nominal||P->br_min!=er.bitrate_lower)
      res_viol("C05","header-fields-differ","header: ch %d rate %u bs %d/%d br %d/%d/%d; encoder info: ch %d rate %ld bs %ld/%ld br %ld/%ld/%ld: %s",P->channels,P->rate,1<<P->bs0exp,1<<P->bs1exp,P->br_max,P->br_nom,P->br_min,er.channels,er.rate,er.bs0,er.bs1,er.bitrate_upper,er.bitrate_nominal,er.bitrate_lower,desc);
    if(L.vi.channels!=er.channels||L.vi.rate!=er.rate||L.vi.bitrate_upper!=er.bitrate_upper||L.vi.bitrate_nominal!=er.bitrate_nominal||L.vi.bitrate_lower!=er.bitrate_lower)
      res_viol("C05","decoded-info-differs","%s",desc);
  }
  /* audio packets */
  sp_dec *D= ok? sp_dec_new(P):NULL; int na=er.pk.n-3; int *Wf=calloc(na+1,sizeof(int)), *pf=calloc(na+1,sizeof(int)), *nf=calloc(na+1,sizeof(int));
  int stride= a->thorough?4:1; long truncated=0, model_checked=0;
  for(int i=0;i<na && res_nviol()==0;i++){
    ogg_packet op; pkt_to_ogg(&er.pk.v[3+i],&op); long have=8*op.bytes; res_eval(1);
    int rs=vorbis_synthesis(&L.vb,&op);
    if(rs){ res_viol("C05","audio-packet-rejected","vorbis_synthesis %d on packet %d of %d (%ld bytes): %s",rs,i,na,op.bytes,desc); break; }
    long used=oggpack_bits(&L.vb.opb);
    vorbis_synthesis_blockin(&L.vd,&L.vb); { float **pcm; int n; while((n=vorbis_synthesis_pcmout(&L.vd,&pcm))>0) vorbis_synthesis_read(&L.vd,n); }
    if(!managed){
      if(used>have || used<=have-8) res_viol("C05","packet-not-consumed-to-last-byte","packet %d: decoder consumed %ld of %ld bits: %s",i,used,have,desc);
    } else if(used>have){
      if(!hardmax) res_viol("C05","managed-packet-runs-out-of-bits","packet %d: decoder needed %ld bits, packet has %ld, no hard maximum configured: %s",i,used,have,desc);
      else truncated++;
    }
    if(D && (i%stride==0 || i<4 || i>=na-2)){
      sp_pktinfo I; sp_dec_packet(D,op.packet,op.bytes,&I,NULL); model_checked++;
      if(!I.ok){ res_viol("C05","model-rejects-audio-packet","packet %d: %s",i,desc); break; }
      Wf[i]=I.blockflag+1; pf[i]=I.prevflag; nf[i]=I.nextflag;
      if(I.eop){ if(!(managed&&hardmax)) res_viol("C05","model-runs-out-of-bits","packet %d (%ld bytes): %s",i,op.bytes,desc); }
      else if(I.bits_used!=used) res_viol("C05","bit-consumption-differs","packet %d: libvorbis consumed %ld bits, model %ld: %s",i,used,I.bits_used,desc);
      long bsz=vorbis_packet_blocksize(&L.vi,&op); if(bsz!=I.n) res_viol("C05","blocksize-differs","packet %d: vorbis_packet_blocksize %ld, model %ld",i,bsz,I.n);
    } else if(D) sp_dec_restart(D);
  }
  /* the direct packet interface (vorbis_analysis(vb,&op)) must hand out the very same packets as addblock/flushpacket */
  if(!managed && res_nviol()==0 && (id%3==0)){
    enccfg_t c2=c; c2.direct=1; encres_t e2; res_eval(1);
    if(enc_run(&c2,&e2)==0){
      if(e2.pk.n!=er.pk.n) res_viol("C05","direct-interface-packet-count","vorbis_analysis(vb,&op) produced %d packets, flushpacket %d: %s",e2.pk.n,er.pk.n,desc);
      else for(int i=3;i<er.pk.n;i++){ pkt_t *x=&er.pk.v[i],*y=&e2.pk.v[i];
        if(x->bytes!=y->bytes||memcmp(x->data,y->data,x->bytes)||x->granulepos!=y->granulepos||x->e_o_s!=y->e_o_s||x->packetno!=y->packetno){ res_viol("C05","direct-interface-packet-differs","packet %d: direct %ld bytes granule %lld eos %d no %lld, flushpacket %ld bytes granule %lld eos %d no %lld: %s",i-3,y->bytes,(long long)y->granulepos,y->e_o_s,(long long)y->packetno,x->bytes,(long long)x->granulepos,x->e_o_s,(long long)x->packetno,desc); break; } }
      res_count("direct_interface_encodes",1);
    }
    encres_free(&e2);
  }
  /* window flags agree with the neighbours' block sizes */
  for(int i=0;i<na;i++) if(Wf[i]==2){
    if(i>0 && Wf[i-1] && pf[i]!=(Wf[i-1]==2)) res_viol("C05","window-flag-disagrees-with-neighbour","packet %d: previous-window flag %d but packet %d is %s: %s",i,pf[i],i-1,Wf[i-1]==2?"long":"short",desc);
    if(i+1<na && Wf[i+1] && nf[i]!=(Wf[i+1]==2)) res_viol("C05","window-flag-disagrees-with-neighbour","packet %d: next-window flag %d but packet %d is %s: %s",i,nf[i],i+1,Wf[i+1]==2?"long":"short",desc);
  }
  res_count("packets_checked",na); res_count("packets_model_parsed",model_checked); res_count("packets_truncated_by_hard_max",truncated);
  if(!res_nviol()) res_bucket("%s|ch%s|band%d|%s|coff%d|lp%d",managed?(hardmax?"managed-hardmax":"managed"):"vbr",c.channels==1?"1":c.channels==2?"2":c.channels<=8?"3-8":"9+",
     c.rate<9000?0:c.rate<15000?1:c.rate<19000?2:c.rate<26000?3:c.rate<40000?4:c.rate<50000?5:6,sig_name(c.sig),c.coupling_off,c.lowpass_khz>0);
  res_sample("%s -> %d audio packets (%ld truncated)",desc,na,truncated);
  free(Wf); free(pf); free(nf);
  if(D) sp_dec_free(D);
  ldec_close(&L); sp_free_setup(P); encres_free(&er);
  res_end();
}

int main(int argc,char **argv){
  drvargs_t a; if(drv_parse(argc,argv,&a)) return 2;
  for(long i=a.first;i<a.first+a.count;i++){
    if(!strcmp(a.mode,"c01")) case_c01(&a,i);
    else if(!strcmp(a.mode,"c05")) case_c05(&a,i);
    else { fprintf(stderr,"unknown mode %s\n",a.mode); return 2; }
  }
  return 0;
}
