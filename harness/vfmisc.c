/* C09 (chain accounting), C10 (delivery independence), C17 (integer PCM), C19 (lapped seeks),
   C20 (half-rate) monitors on encoder-made chained streams. */
#include "common.h"
#include "mixed.h"
#include <math.h>

typedef struct { OggVorbis_File vf; memsrc_t ms; int open; } handle_t;
static int h_open(handle_t *h,const unsigned char *d,size_t n,int seekmode){
  memsrc_init(&h->ms,d,n,seekmode);
  int r=ov_open_callbacks(&h->ms,&h->vf,NULL,0,memsrc_cb(&h->ms));
  h->open=(r==0); return r;
}
static void h_close(handle_t *h){ if(h->open){ ov_clear(&h->vf); h->open=0; } }

/* ------------------------------------------------------------------ C09 */
/* linear read through the 16-bit integer interface against a float reference decode: per link exactly nout frames of that link's own frame size, each value the rounded float.
   Returns 1 if fine.  keys are reported under `prop`. */
/* tap: a filter that changes nothing and records what it was shown.  Every frame a filtered read delivers must have been shown to the filter exactly once, in that call */
static __thread struct { long n; int ch; float first[8]; float last[8]; double sum; long calls; } tap;
static void tap_filter(float **pcm,long channels,long samples,void *arg){ (void)arg; tap.calls++; tap.n+=samples; tap.ch=(int)channels;
  for(int c=0;c<channels&&c<8;c++){ if(samples>0){ tap.first[c]=pcm[c][0]; tap.last[c]=pcm[c][samples-1]; } }
  for(int c=0;c<channels;c++) for(long i=0;i<samples;i++) tap.sum+=pcm[c][i]; }
static int int_linear(const unsigned char *d,size_t n,const refdec_t *whole,int seekmode,int rs,int cap,uint64_t seed,long id,const char *prop,const char *desc){
  int ok=1;
  handle_t hi; memset(&hi,0,sizeof hi); static __thread unsigned char ib[4096]; long fr[VH_MAXLINKS]; memset(fr,0,sizeof fr); int bsi=0; long g; int len=(int)sizeof ib-(int)(id%7);
  memsrc_init(&hi.ms,d,n,seekmode); if(rs>=0) memsrc_schedule(&hi.ms,rs,cap,seed);
  if(ov_open_callbacks(&hi.ms,&hi.vf,NULL,0,memsrc_cb(&hi.ms))==0){ hi.open=1;
    rng_t lr; rng_seed(&lr,seed,0x1f,(uint64_t)id); int vary= !strcmp(prop,"C10"); int usetap= vary && (id%3!=0);
    while(1){
      if(vary){ int k=(int)rng_below(&lr,10); len= k<2?(int)rng_range(&lr,1,64): k<5?(int)rng_range(&lr,64,1024): k<9?(int)rng_range(&lr,1024,4096):4096; }
      memset(&tap,0,sizeof tap);
      g= usetap? ov_read_filter(&hi.vf,(char*)ib,len,0,2,1,&bsi,tap_filter,NULL) : ov_read(&hi.vf,(char*)ib,len,0,2,1,&bsi);
      if(g==0) break;
      if(g==OV_EINVAL && vary && bsi>=0 && bsi<whole->nlinks){ /* a request shorter than one frame of the link being read is refused and changes nothing: ask again with room for one frame */
        int fl=-1; for(int i=0;i<whole->nlinks;i++) if(fr[i]<whole->l[i].nout){ fl=i; break; }
        if(fl>=0 && len<2*whole->l[fl].ch){ res_count("short_requests_refused",1); len=2*whole->l[fl].ch; memset(&tap,0,sizeof tap);
          g= usetap? ov_read_filter(&hi.vf,(char*)ib,len,0,2,1,&bsi,tap_filter,NULL) : ov_read(&hi.vf,(char*)ib,len,0,2,1,&bsi); if(g==0) break; } }
      if(g<0){ res_viol(prop,"int-linear-read-broken","ov_read returned %ld: %s",g,desc); ok=0; break; }
      if(bsi<0||bsi>=whole->nlinks){ res_viol(prop,"int-linear-read-broken","bitstream %d of %d",bsi,whole->nlinks); ok=0; break; }
      const reflink_t *W=&whole->l[bsi]; int frame=2*W->ch;
      if(g%frame || g>len){ res_viol(prop,"int-read-frame-size","link %d (%d channels): ov_read returned %ld bytes of %d asked: %s",bsi,W->ch,g,len,desc); ok=0; break; }
      long nf=g/frame; if(fr[bsi]+nf>W->nout){ res_viol(prop,"int-read-link-length","link %d delivered more than its %ld samples through ov_read: %s",bsi,W->nout,desc); ok=0; break; }
      for(long j=0;j<nf && ok;j++) for(int c=0;c<W->ch;c++){ long v=(long)ib[(j*W->ch+c)*2]|((long)ib[(j*W->ch+c)*2+1]<<8); if(v>=32768) v-=65536;
        float x=W->pcm[c][fr[bsi]+j]; if(x!=x) continue; double e=(double)x*32768.0; if(e>32767) e=32767; if(e<-32768) e=-32768;
        if(fabs((double)v-e)>0.5001){ res_viol(prop,"int-read-audio-differs","link %d ch %d sample %ld: ov_read %ld, float decode %.9g: %s",bsi,c,fr[bsi]+j,v,(double)x,desc); ok=0; break; } }
      if(usetap && ok){
        if(tap.n!=nf || tap.calls!=1 || tap.ch!=W->ch){ res_viol(prop,"filter-shown-other-than-delivered","link %d: %ld frames delivered, filter was called %ld times and shown %ld frames of %d channels (request %d bytes): %s",bsi,nf,tap.calls,tap.n,tap.ch,len,desc); ok=0; break; }
        for(int c=0;c<W->ch&&c<8;c++) if(memcmp(&tap.first[c],&W->pcm[c][fr[bsi]],4)||memcmp(&tap.last[c],&W->pcm[c][fr[bsi]+nf-1],4)){ res_viol(prop,"filter-shown-other-than-delivered","link %d ch %d frames %ld..%ld: filter saw %.9g..%.9g, float decode %.9g..%.9g: %s",bsi,c,fr[bsi],fr[bsi]+nf-1,tap.first[c],tap.last[c],W->pcm[c][fr[bsi]],W->pcm[c][fr[bsi]+nf-1],desc); ok=0; break; }
        res_count("filtered_reads_tapped",1);
      }
      fr[bsi]+=nf; res_eval(1);
    }
    for(int i=0;i<whole->nlinks && ok;i++) if(fr[i]!=whole->l[i].nout){ res_viol(prop,"int-read-link-length","link %d: %ld frames through ov_read, %ld through ov_read_float: %s",i,fr[i],whole->l[i].nout,desc); ok=0; }
    h_close(&hi);
  } else { res_viol(prop,"int-linear-read-broken","open failed: %s",desc); ok=0; }
  return ok;
}
static void case_c09(const drvargs_t *a,long id){
  rng_t r; rng_seed(&r,a->seed,9,(uint64_t)id);
  chaindesc_t cd; buf_t phys; buf_init(&phys); size_t loff[VH_MAXLINKS+1];
  char desc[700]; static char cbuf[VH_MAXLINKS][3][64]; static const char *cptr[VH_MAXLINKS][3];
  res_begin(id);
  int maxl = a->thorough ? (id%10==0?40:12) : 8;
  gen_chain(&r,maxl,a->thorough?30000:14000,GC_GOFFSET|GC_ALLOW_EMPTY|GC_MULTICH|GC_MANAGED,&cd);
  if(cd.nlinks>12) for(int i=0;i<cd.nlinks;i++) if(cd.cfg[i].nsamples>4000) cd.cfg[i].nsamples/=4;
  if(id%10==9){ /* large links (each well over the 64 KiB the open-time bisection reads at a time), so that the bisection really bisects */
    if(cd.nlinks<3) cd.nlinks=3+(int)rng_below(&r,3); if(cd.nlinks>6) cd.nlinks=6;
    for(int i=0;i<cd.nlinks;i++){ enccfg_t *c=&cd.cfg[i]; if(c->rate==0){ *c=cd.cfg[0]; cd.serial[i]=cd.serial[0]+977*i+1; cd.policy[i]=cd.policy[0]; cd.fill[i]=cd.fill[0]; }
      c->mode=ENC_VBR; c->channels= rng_chance(&r,0.6)?2:1; c->rate= rng_chance(&r,0.7)?44100:48000; c->quality=(float)(0.5+0.5*rng_unit(&r)); c->sig= rng_chance(&r,0.5)?SIG_NOISE:SIG_BURSTS; c->sigseed=rng_next(&r);
      c->nsamples=(long)rng_range(&r,40000,a->thorough?260000:150000); c->chunk=CHUNK_RANDOM; if(rng_chance(&r,0.2)) c->nsamples=(long)rng_range(&r,0,3000);
      for(int j=0;j<i;j++) if(cd.serial[j]==cd.serial[i]) cd.serial[i]+=7919*(i+1); } }
  for(int i=0;i<cd.nlinks;i++){
    snprintf(cbuf[i][0],64,"LINK=%d-%llx",i,(unsigned long long)rng_next(&r));
    snprintf(cbuf[i][1],64,"title=chain %ld",id);
    snprintf(cbuf[i][2],64,"%s",i%3?"X=":"noequals");
    for(int k=0;k<3;k++) cptr[i][k]=cbuf[i][k];
    cd.cfg[i].comments=cptr[i]; cd.cfg[i].ncomments=1+(int)rng_below(&r,3);
  }
  if(id%20==7 && cd.nlinks>=2){ /* a later link with a 100-200 KB comment: its header pages are of the maximum size (65307 bytes), larger than the chunk the open-time bisection reads */
    static __thread char big[200001]; static __thread const char *bigp[1]; long bl=(long)rng_range(&r,100000,200000); memcpy(big,"BIG=",4); for(long i=4;i<bl;i++) big[i]=(char)('a'+(i*7)%26); big[bl]=0; bigp[0]=big;
    int li=1+(int)rng_below(&r,(uint32_t)(cd.nlinks-1)); cd.cfg[li].comments=bigp; cd.cfg[li].ncomments=1; res_count("chains_with_maximum_size_header_pages",1); }
  chain_describe(&cd,desc,sizeof desc);
  if(build_chain(&cd,&phys,loff)){ res_sample("encoder refused: %s",desc); res_end(); buf_free(&phys); return; }
  if(id%12==5){ /* some links carry a second, foreign logical stream multiplexed in (BOS after the Vorbis BOS, pages in between, its end before or after the Vorbis EOS page):
                   vorbisfile ignores streams it does not decode, so nothing it reports about the link may change */
    buf_t q; buf_init(&q); size_t nl2[VH_MAXLINKS+1]; size_t dl=strlen(desc);
    for(int i=0;i<cd.nlinks;i++){ nl2[i]=q.n; buf_t one; one.p=phys.p+loff[i]; one.n=loff[i+1]-loff[i]; one.cap=one.n;
      if(rng_chance(&r,0.6)){ int where=(int)rng_below(&r,2); if(rng_chance(&r,0.4)) where|=4; mux_add_foreign(&one,0x0f00d000+i,rng_next(&r),where,&q); if(dl+40<sizeof desc) dl+=snprintf(desc+dl,sizeof desc-dl," {link %d +foreign stream, ends %s}",i,(where&4)?"mid-link":where?"after":"before"); }
      else buf_add(&q,one.p,one.n); }
    nl2[cd.nlinks]=q.n; buf_free(&phys); phys=q; for(int i=0;i<=cd.nlinks;i++) loff[i]=nl2[i]; res_count("chains_with_multiplexed_foreign_streams",1); }
  vh_dump("stream.ogg",phys.p,phys.n);
  handle_t h; int ret=h_open(&h,phys.p,phys.n,1);
  res_eval(1);
  if(ret){ res_viol("C09","open-failed","ret %d: %s",ret,desc); goto out; }
  if(ov_streams(&h.vf)!=cd.nlinks) res_viol("C09","link-count","ov_streams=%ld, muxed %d: %s",ov_streams(&h.vf),cd.nlinks,desc);
  else {
    ogg_int64_t sum=0; double tsum=0;
    for(int i=0;i<cd.nlinks;i++){
      vorbis_info *vi=ov_info(&h.vf,i); vorbis_comment *vc=ov_comment(&h.vf,i); res_eval(1);
      if(!vi||!vc){ res_viol("C09","info-null","link %d",i); continue; }
      if(vi->channels!=cd.cfg[i].channels) res_viol("C09","link-channels","link %d: %d vs %d",i,vi->channels,cd.cfg[i].channels);
      if(vi->rate!=cd.cfg[i].rate) res_viol("C09","link-rate","link %d: %ld vs %ld",i,vi->rate,cd.cfg[i].rate);
      if(ov_serialnumber(&h.vf,i)!=cd.serial[i]) res_viol("C09","link-serial","link %d: %ld vs %d",i,ov_serialnumber(&h.vf,i),cd.serial[i]);
      if(ov_pcm_total(&h.vf,i)!=cd.cfg[i].nsamples) res_viol("C09","link-length","link %d: pcm_total %lld, %ld encoded",i,(long long)ov_pcm_total(&h.vf,i),cd.cfg[i].nsamples);
      if(fabs(ov_time_total(&h.vf,i)-(double)cd.cfg[i].nsamples/cd.cfg[i].rate)>1e-9) res_viol("C09","link-time","link %d: %.9f",i,ov_time_total(&h.vf,i));
      if(vc->comments!=cd.cfg[i].ncomments) res_viol("C09","link-comment-count","link %d: %d vs %d",i,vc->comments,cd.cfg[i].ncomments);
      else for(int k=0;k<vc->comments;k++) if(vc->comment_lengths[k]!=(int)strlen(cd.cfg[i].comments[k])||memcmp(vc->user_comments[k],cd.cfg[i].comments[k],vc->comment_lengths[k]))
        res_viol("C09","link-comment-bytes","link %d comment %d",i,k);
      sum+=cd.cfg[i].nsamples; tsum+=(double)cd.cfg[i].nsamples/cd.cfg[i].rate;
    }
    if(ov_pcm_total(&h.vf,-1)!=sum) res_viol("C09","total-length","pcm_total(-1) %lld vs sum %lld",(long long)ov_pcm_total(&h.vf,-1),(long long)sum);
    if(fabs(ov_time_total(&h.vf,-1)-tsum)>1e-6) res_viol("C09","total-time","%.9f vs %.9f",ov_time_total(&h.vf,-1),tsum);
    if(ov_raw_total(&h.vf,-1)<=0) res_viol("C09","raw-total","%lld",(long long)ov_raw_total(&h.vf,-1));
  }
  h_close(&h);
  if(h.ms.n_close!=1) res_viol("C13","close-count","close ran %ld times",h.ms.n_close);
  /* linear read of the chain == each link decoded on its own */
  {
    refdec_t whole; int rr=ref_decode(phys.p,phys.n,0,&whole); res_eval(1);
    if(rr){ res_viol("C09","linear-read-broken","%s: %s",whole.err,desc); ref_free(&whole); goto out; }
    int ok=1;
    for(int i=0;i<cd.nlinks && i<whole.nlinks;i++){
      refdec_t alone; int ra=ref_decode(phys.p+loff[i],loff[i+1]-loff[i],0,&alone); res_eval(1);
      if(ra){ res_viol("C09","link-alone-broken","link %d: %s",i,alone.err); ok=0; ref_free(&alone); continue; }
      reflink_t *W=&whole.l[i],*A=&alone.l[0];
      if(alone.nlinks!=1||A->len!=W->len||A->nout!=W->nout||A->ch!=W->ch){ res_viol("C09","link-alone-shape","link %d: alone len %lld nout %ld ch %d, in chain len %lld nout %ld ch %d",i,(long long)A->len,A->nout,A->ch,(long long)W->len,W->nout,W->ch); ok=0; }
      else {
        if(W->nout!=W->len){ res_viol("C09","link-delivered-short","link %d delivered %ld of %lld",i,W->nout,(long long)W->len); ok=0; }
        for(int c=0;c<W->ch;c++) if(memcmp(W->pcm[c],A->pcm[c],sizeof(float)*W->nout)){ res_viol("C09","link-audio-differs","link %d ch %d differs from the link decoded alone",i,c); ok=0; break; }
      }
      ref_free(&alone);
    }
    if(ok && id%12==5){ /* byte seeks into links that carry a foreign stream: the position reported afterwards must be the position of the audio delivered */
      handle_t hr; memset(&hr,0,sizeof hr);
      if(h_open(&hr,phys.p,phys.n,1)==0){
        for(int q=0;q<40 && ok;q++){ ogg_int64_t off=(ogg_int64_t)rng_range(&r,0,(long)phys.n-1); int rs=ov_raw_seek(&hr.vf,off); res_eval(1); if(rs){ res_viol("C09","multiplexed-link:raw-seek-failed","ov_raw_seek(%lld) = %d: %s",(long long)off,rs,desc); ok=0; break; }
          ogg_int64_t T=ov_pcm_tell(&hr.vf); float **pcm; int bs=-1; long g=ov_read_float(&hr.vf,&pcm,300,&bs); if(g<=0) continue;
          int l=ref_link_of(&whole,T); if(l<0||l!=bs){ res_viol("C09","multiplexed-link:raw-seek-position","after ov_raw_seek(%lld): tell %lld, bitstream %d, reference link %d: %s",(long long)off,(long long)T,bs,l,desc); ok=0; break; }
          const reflink_t *W=&whole.l[l]; long idx=(long)(T-W->start); if(idx+g>W->nout){ res_viol("C09","multiplexed-link:raw-seek-position","read crosses the end of link %d: %s",l,desc); ok=0; break; }
          for(int c=0;c<W->ch;c++) if(memcmp(pcm[c],W->pcm[c]+idx,sizeof(float)*g)){ res_viol("C09","multiplexed-link:raw-seek-audio-differs","after ov_raw_seek(%lld) the handle reports position %lld (link %d) but delivers other audio: %s",(long long)off,(long long)T,l,desc); ok=0; break; } }
        h_close(&hr); } }
    if(ok) ok=int_linear(phys.p,phys.n,&whole,(id&1)?1:0,-1,0,0,id,"C09",desc);
    if(ok){
      int zero=0,tiny=0; for(int i=0;i<cd.nlinks;i++){ if(cd.cfg[i].nsamples==0)zero=1; else if(cd.cfg[i].nsamples<400)tiny=1; }
      res_bucket("k%d|zero%d|tiny%d|first%s",cd.nlinks>8?9:cd.nlinks,zero,tiny,cd.cfg[0].nsamples<2000?"short":"long");
      res_count("links_verified",cd.nlinks);
    }
    ref_free(&whole);
  }
out:
  h_close(&h);
  res_sample("%s bytes=%zu",desc,phys.n);
  res_end(); buf_free(&phys);
}

/* ------------------------------------------------------------------ C10 */
/* decode the whole stream through one access path into per-link arrays shaped like the reference */
typedef struct { int nl; long n[VH_MAXLINKS]; int ch[VH_MAXLINKS]; float **pcm[VH_MAXLINKS]; long cap[VH_MAXLINKS]; char err[160]; } flat_t;
static void flat_free(flat_t *f){ for(int i=0;i<f->nl;i++){ if(f->pcm[i]){ for(int c=0;c<f->ch[i];c++) free(f->pcm[i][c]); free(f->pcm[i]); } } memset(f,0,sizeof *f); }
static void flat_put(flat_t *f,int l,int ch,float **pcm,long n){
  if(l>=VH_MAXLINKS) return;
  if(l>=f->nl){ for(int i=f->nl;i<=l;i++){ f->n[i]=0; f->ch[i]=0; f->pcm[i]=NULL; f->cap[i]=0; } f->nl=l+1; }
  if(!f->pcm[l]){ f->ch[l]=ch; f->pcm[l]=calloc(ch,sizeof(float*)); }
  if(f->n[l]+n>f->cap[l]){ long nc=f->cap[l]?f->cap[l]*2:8192; while(nc<f->n[l]+n)nc*=2; for(int c=0;c<f->ch[l];c++) f->pcm[l][c]=realloc(f->pcm[l][c],sizeof(float)*nc); f->cap[l]=nc; }
  for(int c=0;c<f->ch[l] && c<ch;c++) memcpy(f->pcm[l][c]+f->n[l],pcm[c],sizeof(float)*n);
  f->n[l]+=n;
}
static int flat_vf(const unsigned char *d,size_t n,int seekmode,int rs,int cap,uint64_t seed,int reqpol,long preload,flat_t *out){
  OggVorbis_File vf; memsrc_t ms; rng_t r; rng_seed(&r,seed,0x10,(uint64_t)reqpol);
  memset(out,0,sizeof *out);
  memsrc_init(&ms,d,n,seekmode); memsrc_schedule(&ms,rs,cap,seed);
  if(preload>(long)n)preload=(long)n;
  ms.pos=preload;
  int ret=ov_open_callbacks(&ms,&vf,(const char*)d,preload,memsrc_cb(&ms));
  if(ret){ snprintf(out->err,sizeof out->err,"open=%d",ret); return -1; }
  int lastbs=-1;
  while(1){
    float **pcm; int bs=-9; int len= reqpol==0?1: reqpol==1?(int)rng_range(&r,1,700): reqpol==2?1<<24: 4096;
    long got=ov_read_float(&vf,&pcm,len,&bs);
    if(got==0) break;
    if(got<0){ snprintf(out->err,sizeof out->err,"read=%ld (hole/error on intact stream) after link %d",got,lastbs); ov_clear(&vf); return -2; }
    if(got>len){ snprintf(out->err,sizeof out->err,"read returned %ld > requested %d",got,len); ov_clear(&vf); return -3; }
    if(bs<lastbs){ snprintf(out->err,sizeof out->err,"bitstream went back %d->%d",lastbs,bs); ov_clear(&vf); return -4; }
    lastbs=bs;
    flat_put(out,bs,ov_info(&vf,-1)->channels,pcm,got);
  }
  ov_clear(&vf);
  return 0;
}
/* packet-level path: own ogg_sync/ogg_stream loop, re-init at every BOS */
static int flat_pkt(const unsigned char *d,size_t n,int feed,flat_t *out){
  ogg_sync_state oy; ogg_stream_state os; ogg_page og; ogg_packet op;
  vorbis_info vi; vorbis_comment vc; vorbis_dsp_state vd; vorbis_block vb;
  int have_os=0,have_dec=0,hdr=0,link=-1; size_t fed=0; int rc=0;
  memset(out,0,sizeof *out);
  ogg_sync_init(&oy);
  while(1){
    int pr=ogg_sync_pageout(&oy,&og);
    if(pr==0){
      if(fed>=n) break;
      size_t k=n-fed; if(k>(size_t)feed)k=feed;
      char *b=ogg_sync_buffer(&oy,(long)k); memcpy(b,d+fed,k); ogg_sync_wrote(&oy,(long)k); fed+=k; continue;
    }
    if(pr<0){ snprintf(out->err,sizeof out->err,"sync hole at %zu",fed); rc=-1; break; }
    if(ogg_page_bos(&og)){
      { /* a BOS page of a stream that is not Vorbis (multiplexed foreign stream) starts nothing */
        ogg_stream_state ts; ogg_packet tp; ogg_stream_init(&ts,ogg_page_serialno(&og)); int isv=0; if(ogg_stream_pagein(&ts,&og)==0 && ogg_stream_packetpeek(&ts,&tp)==1) isv=vorbis_synthesis_idheader(&tp); ogg_stream_clear(&ts);
        if(!isv) continue; }
      if(have_dec){ vorbis_block_clear(&vb); vorbis_dsp_clear(&vd); have_dec=0; }
      if(have_os){ ogg_stream_clear(&os); vorbis_comment_clear(&vc); vorbis_info_clear(&vi); }
      ogg_stream_init(&os,ogg_page_serialno(&og)); have_os=1; hdr=0; link++;
      vorbis_info_init(&vi); vorbis_comment_init(&vc);
    }
    if(!have_os) continue;
    if(ogg_stream_pagein(&os,&og)<0) continue;
    while(1){
      int r=ogg_stream_packetout(&os,&op);
      if(r==0) break;
      if(r<0){ snprintf(out->err,sizeof out->err,"packet hole in link %d",link); rc=-2; goto done; }
      if(hdr<3){
        int hr=vorbis_synthesis_headerin(&vi,&vc,&op);
        if(hr){ snprintf(out->err,sizeof out->err,"headerin %d = %d",hdr,hr); rc=-3; goto done; }
        if(++hdr==3){
          if(vorbis_synthesis_init(&vd,&vi)){ snprintf(out->err,sizeof out->err,"synthesis_init failed"); rc=-4; goto done; }
          vorbis_block_init(&vd,&vb); have_dec=1;
        }
        continue;
      }
      int sr=vorbis_synthesis(&vb,&op);
      if(sr){ snprintf(out->err,sizeof out->err,"synthesis=%d link %d",sr,link); rc=-5; goto done; }
      vorbis_synthesis_blockin(&vd,&vb);
      float **pcm; int s;
      while((s=vorbis_synthesis_pcmout(&vd,&pcm))>0){ flat_put(out,link,vi.channels,pcm,s); vorbis_synthesis_read(&vd,s); }
    }
  }
done:
  if(have_dec){ vorbis_block_clear(&vb); vorbis_dsp_clear(&vd); }
  if(have_os){ ogg_stream_clear(&os); vorbis_comment_clear(&vc); vorbis_info_clear(&vi); }
  ogg_sync_clear(&oy);
  return rc;
}
static int flat_cmp(const flat_t *f,const refdec_t *ref,const char *path,const char *desc){
  /* streaming/packet paths number links as they come; links with zero samples never yield a read, so compare
     the sequence of non-empty links */
  int j=0;
  for(int i=0;i<ref->nlinks;i++){
    const reflink_t *L=&ref->l[i];
    if(L->nout==0){ if(j<f->nl && f->n[j]==0 && f->pcm[j]==NULL) j++; else if(j<f->nl && f->n[j]==0) j++; continue; }
    while(j<f->nl && f->n[j]==0) j++;
    if(j>=f->nl){ res_viol("C10","path-missing-link","%s: link %d (%ld samples) not delivered: %s",path,i,L->nout,desc); return -1; }
    if(f->n[j]!=L->nout||f->ch[j]!=L->ch){ res_viol("C10","path-sample-count","%s: link %d delivers %ld x%dch, seekable reference %ld x%dch",path,i,f->n[j],f->ch[j],L->nout,L->ch); return -1; }
    for(int c=0;c<L->ch;c++) if(memcmp(f->pcm[j][c],L->pcm[c],sizeof(float)*L->nout)){
      long k=0; while(k<L->nout && !memcmp(&f->pcm[j][c][k],&L->pcm[c][k],4))k++;
      res_viol("C10","path-pcm-differs","%s: link %d ch %d sample %ld: %.9g vs %.9g",path,i,c,k,f->pcm[j][c][k],L->pcm[c][k]); return -1; }
    j++;
  }
  while(j<f->nl){ if(f->n[j]){ res_viol("C10","path-extra-audio","%s: %ld extra samples after last link",path,f->n[j]); return -1; } j++; }
  return 0;
}
static void case_c10(const drvargs_t *a,long id){
  rng_t r; rng_seed(&r,a->seed,10,(uint64_t)id);
  chaindesc_t cd; buf_t phys; buf_init(&phys); char desc[700];
  res_begin(id);
  gen_chain(&r,a->thorough?6:4,a->thorough?24000:9000,GC_GOFFSET|GC_ALLOW_EMPTY|GC_MULTICH|GC_MANAGED,&cd);
  chain_describe(&cd,desc,sizeof desc);
  if(id%4==3){ if(build_chain_mixed(&r,&cd,pick_modelmask(&r,cd.nlinks),40,8,&phys,NULL,desc,sizeof desc)){ res_sample("refused: %s",desc); res_end(); buf_free(&phys); return; } }
  else
  { size_t loff10[VH_MAXLINKS+1]; int rc= (id%6==5)? build_chain(&cd,&phys,loff10) : build_chain(&cd,&phys,NULL);
    if(rc){ res_sample("encoder refused: %s",desc); res_end(); buf_free(&phys); return; }
    if(id%6==5){ /* links with a foreign logical stream multiplexed in; its BOS page before or after the Vorbis one, its end before or after the Vorbis EOS page */
      buf_t q; buf_init(&q); size_t dl=strlen(desc);
      for(int i=0;i<cd.nlinks;i++){ buf_t one; one.p=phys.p+loff10[i]; one.n=loff10[i+1]-loff10[i]; one.cap=one.n;
        if(rng_chance(&r,0.7)){ int where=(int)rng_below(&r,4); mux_add_foreign(&one,0x0f00d100+i,rng_next(&r),where,&q); if(dl+50<sizeof desc) dl+=snprintf(desc+dl,sizeof desc-dl," {link %d +foreign stream, BOS %s}",i,(where&2)?"first":"second"); }
        else buf_add(&q,one.p,one.n); }
      buf_free(&phys); phys=q; res_count("streams_with_multiplexed_foreign_streams",1); } }
  vh_dump("stream.ogg",phys.p,phys.n);
  refdec_t ref; if(ref_decode(phys.p,phys.n,0,&ref)){ res_viol("C10","seekable-read-broken","%s: %s",ref.err,desc); res_eval(1); ref_free(&ref); res_end(); buf_free(&phys); return; }
  /* the integer read call is a read call too: one pass per case, seekable or streaming, under a short-read schedule */
  { int sm=(int)(id&1); int rs0=(int)rng_below(&r,RS_NKINDS); int cap0=(int)rng_range(&r,1,3000); if(int_linear(phys.p,phys.n,&ref,sm,rs0,cap0,rng_next(&r),id,"C10",desc)) res_bucket("int-read|%s|rs%d",sm?"seekable":"streaming",rs0); }
  int nsched=a->thorough?10:5;
  for(int k=0;k<nsched && !res_nviol();k++){
    int seekmode = (k%2)?0:1; if(rng_chance(&r,0.15)) seekmode=2;
    int rs=(int)rng_below(&r,RS_NKINDS); int cap= rs==RS_CAP?(int)rng_range(&r,2,300): (int)rng_range(&r,1,5000);
    if(k==0){ rs=RS_ONE; seekmode=0; } if(k==1){ rs=RS_ONE; seekmode=1; }
    int reqpol=(int)rng_below(&r,4); long preload= rng_chance(&r,0.3)?rng_range(&r,1,8192):0;
    if((rs==RS_ONE||reqpol==0) && phys.n>60000 && !a->thorough){ rs=RS_CAP; cap=7; if(reqpol==0)reqpol=1; }
    int dirty= k%3==2 || rng_chance(&r,0.2);   /* the source leaves errno == EINTR on successful reads (it retried an interrupted read): success is success */
    flat_t f; char path[140]; snprintf(path,sizeof path,"vorbisfile %s rs=%d cap=%d req=%d preload=%ld%s",seekmode==1?"seekable":seekmode==0?"streaming":"seek-fails",rs,cap,reqpol,preload,dirty?" errno-left-set-on-success":"");
    memsrc_errno_dirty_default=dirty; if(dirty) res_count("decodes_with_errno_left_set_on_successful_reads",1);
    int fr=flat_vf(phys.p,phys.n,seekmode,rs,cap,rng_next(&r),reqpol,preload,&f); res_eval(1); memsrc_errno_dirty_default=0;
    if(fr) res_viol("C10","path-error","%s: %s: %s",path,f.err,desc);
    else if(!flat_cmp(&f,&ref,path,desc)) res_bucket("vf|mode%d|rs%d|req%d|pre%d|%s%s",seekmode,rs,reqpol,preload>0,ref.nlinks>1?"chain":"single",dirty?"|errno":"");
    flat_free(&f);
  }
  if(!res_nviol()){
    int feeds[]={1,7,255,2048,65536};
    for(int k=0;k<(a->thorough?5:3) && !res_nviol();k++){
      int feed=feeds[(id+k)%5]; if(feed==1 && phys.n>80000) feed=13;
      flat_t f; char path[64]; snprintf(path,sizeof path,"packet API feed=%d",feed);
      int fr=flat_pkt(phys.p,phys.n,feed,&f); res_eval(1);
      if(fr) res_viol("C10","path-error","%s: %s: %s",path,f.err,desc);
      else if(!flat_cmp(&f,&ref,path,desc)) res_bucket("pkt|feed%d|%s",feed,ref.nlinks>1?"chain":"single");
      flat_free(&f);
    }
  }
  res_sample("%s bytes=%zu total=%lld",desc,phys.n,(long long)ref.total);
  ref_free(&ref); res_end(); buf_free(&phys);
}

/* ------------------------------------------------------------------ C17 */
static void half_filter(float **pcm,long channels,long samples,void *param){ (void)param; for(long c=0;c<channels;c++) for(long i=0;i<samples;i++) pcm[c][i]*=0.5f; }
static void case_c17(const drvargs_t *a,long id){
  rng_t r; rng_seed(&r,a->seed,17,(uint64_t)id);
  chaindesc_t cd; buf_t phys; buf_init(&phys); char desc[700];
  res_begin(id);
  gen_chain(&r,3,a->thorough?16000:7000,GC_MULTICH,&cd);
  for(int i=0;i<cd.nlinks;i++){ int s=(int)rng_below(&r,4); cd.cfg[i].sig= s==0?SIG_OVER: s==1?SIG_ALT: s==2?SIG_NOISE:cd.cfg[i].sig; }
  if(id%9==0){ cd.nlinks=1; cd.cfg[0].channels= (id%18==0)?255:(int)rng_range(&r,9,64); cd.cfg[0].nsamples=rng_range(&r,600,3000); cd.cfg[0].rate=44100; }
  chain_describe(&cd,desc,sizeof desc);
  if(id%5==3){
    /* crafted stream from the Vorbis I model: decoded values far outside +-1 (up to ~1e9), any channel count/block size */
    extern void sp_set_gen_amp(double a);
    static const double amps[]={3.0,40.0,4e4,7e4,1e6,3e9}; double amp=amps[rng_below(&r,6)];
    sp_set_gen_amp(amp); sp_setup *S=sp_gen_setup(&r,(int)rng_below(&r,SP_NPROFILES),1); sp_set_gen_amp(1.0);
    pktlist_t pk; pktlist_init(&pk); int np=(int)rng_range(&r,6,30); if(((long)S->channels<<S->bs1exp)>(1L<<17)) np=6;
    sp_gen_stream(&r,S,np,&pk,(int)rng_below(&r,2)); mux_stream(&pk,4242,(int)rng_below(&r,PAGE_NKINDS),(int)rng_range(&r,1,9000),rng_next(&r),&phys);
    snprintf(desc,sizeof desc,"model-made stream ch=%d bs=%d/%d amplitude scale %.3g, %d packets",S->channels,1<<S->bs0exp,1<<S->bs1exp,amp,np);
    pktlist_free(&pk); sp_free_setup(S);
  } else
  if(build_chain(&cd,&phys,NULL)){ res_sample("encoder refused: %s",desc); res_end(); buf_free(&phys); return; }
  vh_dump("stream.ogg",phys.p,phys.n);
  handle_t A,B; if(h_open(&A,phys.p,phys.n,1)||h_open(&B,phys.p,phys.n,1)){ res_viol("C17","open-failed","%s",desc); h_close(&A); h_close(&B); res_end(); buf_free(&phys); return; }
  ogg_int64_t total=ov_pcm_total(&A.vf,-1);
  int guard=0; long clipped=0;
  while(guard++<20000 && !res_nviol()){
    ogg_int64_t pos=ov_pcm_tell(&B.vf);
    if(rng_chance(&r,0.03) && total>0){ ogg_int64_t p=rng_range(&r,0,(long)total); ov_pcm_seek(&A.vf,p); ov_pcm_seek(&B.vf,p); pos=ov_pcm_tell(&B.vf); if(ov_pcm_tell(&A.vf)!=pos){ res_viol("C17","twin-desync","after seek"); break; } }
    vorbis_info *vi=ov_info(&B.vf,-1); int ch=vi->channels;
    /* the link may change at this read; peek through twin A first */
    float **pcm; int bsA=-1; long availA=ov_read_float(&A.vf,&pcm,1<<20,&bsA);
    if(availA<0){ res_viol("C17","float-read-error","%ld",availA); break; }
    if(availA>0){ ch=ov_info(&A.vf,-1)->channels; }
    int word=rng_chance(&r,0.5)?1:2, sgned=(int)rng_below(&r,2), be=(int)rng_below(&r,2);
    int frame=word*ch; int lc=(int)rng_below(&r,100); int length;
    if(lc<10) length=(int)rng_range(&r,0,frame-1);
    else if(lc<20) length=frame; else if(lc<30) length=frame+1; else if(lc<80) length=(int)rng_range(&r,frame,frame*600); else length=1<<20;
    if(lc>=95){ word=(lc&1)?0:-1; }
    int mis=(int)rng_below(&r,2);
    unsigned char *raw=malloc((size_t)length+mis+1); unsigned char *buf=raw+mis;
    memset(raw,0xA5,(size_t)length+mis);
    int bsB=-1; int nosec=rng_chance(&r,0.3);   /* the section pointer is optional: a caller that passes NULL must get the same bytes */
    int usefilt= (word==1||word==2) && rng_chance(&r,0.2);   /* ov_read_filter with a filter that is not idempotent (halves every sample): it must see each delivered sample exactly once, whatever the buffer length */
    long got= usefilt? ov_read_filter(&B.vf,(char*)buf,length,be,word,sgned,nosec?NULL:&bsB,half_filter,NULL) : ov_read(&B.vf,(char*)buf,length,be,word,sgned,nosec?NULL:&bsB); if(nosec) bsB=bsA; if(usefilt) res_count("filtered_integer_reads",1);
    res_eval(1);
    if(word<=0 || (availA>0 && length<frame)){
      res_count("error_requests",1);
      if(got>=0 && !(availA==0 && got==0)) res_viol("C17","bad-request-not-rejected","word=%d length=%d frame=%d returned %ld",word,length,frame,got);
      for(int i=0;i<length;i++) if(buf[i]!=0xA5){ res_viol("C17","bad-request-wrote-buffer","word=%d length=%d byte %d",word,length,i); break; }
      if(ov_pcm_tell(&B.vf)!=pos) res_viol("C17","bad-request-moved-position","%lld -> %lld",(long long)pos,(long long)ov_pcm_tell(&B.vf));
      else res_bucket("reject|word%d|len%s",word,length<frame?"<frame":"ok");
      free(raw);
      /* resync A back: it consumed availA samples */
      if(availA>0){ ov_pcm_seek(&A.vf,pos); }
      continue;
    }
    if(availA==0){ if(got!=0) res_viol("C17","int-read-at-eof","float twin at EOF, ov_read returned %ld",got); free(raw); break; }
    if(got<=0){ res_viol("C17","int-read-failed","returned %ld at %lld (float twin delivered %ld)",got,(long long)pos,availA); free(raw); break; }
    if(got%frame || got>length){ res_viol("C17","frame-count","returned %ld bytes, frame %d, length %d",got,frame,length); free(raw); break; }
    long frames=got/frame;
    if(frames>availA){ res_viol("C17","more-than-available","%ld frames, float twin had %ld",frames,availA); free(raw); break; }
    if(bsB!=bsA) res_viol("C17","bitstream-index","%d vs %d",bsB,bsA);
    for(int i=(int)got;i<length && i<got+64;i++) if(buf[i]!=0xA5){ res_viol("C17","wrote-past-returned-length","byte %d of %d (returned %ld)",i,length,got); break; }
    if(ov_pcm_tell(&B.vf)!=pos+frames) res_viol("C17","tell-advance","%lld -> %lld after %ld frames",(long long)pos,(long long)ov_pcm_tell(&B.vf),frames);
    double scale= word==1?128.0:32768.0; long lo=word==1?-128:-32768, hi=word==1?127:32767;
    for(long j=0;j<frames && res_nviol()<3;j++) for(int c=0;c<ch;c++){
      long val;
      const unsigned char *p=buf+(j*ch+c)*word;
      if(word==1) val=p[0]; else val= be? ((long)p[0]<<8|p[1]) : ((long)p[1]<<8|p[0]);
      if(sgned){ if(word==1){ if(val>=128)val-=256; } else if(val>=32768)val-=65536; } else val-= (word==1?128:32768);
      float x=pcm[c][j]; if(x!=x) continue; if(usefilt) x*=0.5f;
      double v=(double)x*scale;
      int ok;
      if(v>=hi+0.5){ ok=(val==hi); clipped++; }
      else if(v<=lo-0.5){ ok=(val==lo); clipped++; }
      else ok=(fabs((double)val-v)<=0.5 && val>=lo && val<=hi);
      if(!ok) res_viol("C17","sample-value","pos %lld ch %d word=%d sgned=%d be=%d: float %.9g (x%g=%.4f) -> %ld",(long long)(pos+j),c,word,sgned,be,x,scale,v,val);
    }
    if(!res_nviol()) res_bucket("w%d|s%d|be%d|len%d|ch%s|mis%d",word,sgned,be,lc<20?0:lc<30?1:lc<80?2:3,ch==1?"1":ch==2?"2":ch<=8?"3-8":"9+",mis);
    free(raw);
    /* put A exactly where B is */
    if(frames!=availA){ int sr=ov_pcm_seek(&A.vf,pos+frames); if(sr){ res_viol("C17","twin-resync-failed","ov_pcm_seek(%lld) = %d (total %lld)",(long long)(pos+frames),sr,(long long)total); break; } }
  }
  res_count("clipped_samples",clipped);
  h_close(&A); h_close(&B);
  res_sample("%s bytes=%zu total=%lld",desc,phys.n,(long long)total);
  res_end(); buf_free(&phys);
}

/* ------------------------------------------------------------------ C20 */
/* The monitor keeps its own cursor (link, sample index) into the linear reference decode.  After a seek or toggle the
   cursor is derived from ov_pcm_tell, which must then lie on the half-rate grid of its link (link start + 2j); during
   sequential reading the cursor just advances, because at half rate the reported position drifts by one for every
   odd-length link read through (N+1 after the last sample of an odd link; accepted by the statement). */
typedef struct { int link; long idx; int valid; } cur_t;
static int cur_from_tell(cur_t *cu,const refdec_t *ref,OggVorbis_File *vf,int hs,const char *ctx){
  ogg_int64_t T=ov_pcm_tell(vf);
  cu->valid=0;
  if(T<0){ res_viol("C20","tell-negative","%s: %lld",ctx,(long long)T); return -1; }
  int l=ref_link_of(ref,T);
  if(l<0){ cu->link=ref->nlinks; cu->idx=0; cu->valid=1;
    if(T>ref->total+1){ res_viol("C20","tell-past-total","%s: %lld total %lld",ctx,(long long)T,(long long)ref->total); return -1; }
    return 0; }
  ogg_int64_t rel=T-ref->l[l].start;
  if(hs && (rel&1)){
    /* one past the end of an odd-length link is the (empty) tail of that link, not sample 0.5 of it */
    res_viol("C20","off-grid-position-after-seek","%s: position %lld is %lld into link %d at half rate",ctx,(long long)T,(long long)rel,l); return -1; }
  cu->link=l; cu->idx=(long)(rel>>hs); cu->valid=1; return 0;
}
static int verify_hr(OggVorbis_File *vf,const refdec_t *ref,int hs,rng_t *r,int nreads,const char *ctx,cur_t *cu){
  if(!cu->valid && cur_from_tell(cu,ref,vf,hs,ctx)) return -1;
  for(int k=0;k<nreads;k++){
    ogg_int64_t before=ov_pcm_tell(vf); float **pcm; int bs=-5;
    long got=ov_read_float(vf,&pcm,(int)rng_range(r,1,2000),&bs); res_eval(1);
    if(vh_trace) fprintf(stderr,"  read hs=%d at %lld -> %ld bs %d (cursor %d/%ld)\n",hs,(long long)before,got,bs,cu->link,cu->idx);
    if(got<0){ res_viol("C20","read-error","%s: %ld at %lld",ctx,got,(long long)before); return -1; }
    /* skip exhausted links */
    while(cu->link<ref->nlinks && cu->idx>=ref->l[cu->link].nout && !(got>0 && bs==cu->link)){ cu->link++; cu->idx=0; }
    if(got==0){
      if(cu->link<ref->nlinks){ res_viol("C20","eof-before-total","%s: EOF at %lld with link %d sample %ld of %ld undelivered",ctx,(long long)before,cu->link,cu->idx,ref->l[cu->link].nout); return -1; }
      return 0;
    }
    if(cu->link>=ref->nlinks){ res_viol("C20","samples-past-total","%s: %ld samples at %lld, total %lld",ctx,got,(long long)before,(long long)ref->total); return -1; }
    const reflink_t *L=&ref->l[cu->link];
    if(bs!=cu->link){ res_viol("C20","bitstream-index","%s: at %lld read says link %d, reference cursor is in link %d (sample %ld of %ld)",ctx,(long long)before,bs,cu->link,cu->idx,L->nout); return -1; }
    if(cu->idx+got>L->nout){ res_viol("C20","read-beyond-link","%s: idx %ld + %ld > %ld",ctx,cu->idx,got,L->nout); return -1; }
    for(int c=0;c<L->ch;c++) if(memcmp(pcm[c],L->pcm[c]+cu->idx,sizeof(float)*got)){
      long j=0; while(j<got && !memcmp(&pcm[c][j],&L->pcm[c][cu->idx+j],4))j++;
      res_viol("C20",hs?"halfrate-pcm-differs":"fullrate-pcm-differs-after-toggle","%s: link %d ch %d pos %lld (+%ld): got %.9g want %.9g",ctx,cu->link,c,(long long)before,j,pcm[c][j],L->pcm[c][cu->idx+j]); return -1; }
    ogg_int64_t truepos=L->start+((ogg_int64_t)cu->idx<<hs);
    if(!hs && before!=truepos){ res_viol("C20","fullrate-position-label","%s: tell %lld but audio is sample %lld",ctx,(long long)before,(long long)truepos); return -1; }
    if(hs && (before<truepos || before>truepos+cu->link)){ res_viol("C20","halfrate-position-label","%s: tell %lld but audio is at %lld (link %d)",ctx,(long long)before,(long long)truepos,cu->link); return -1; }
    cu->idx+=got;
    ogg_int64_t after=ov_pcm_tell(vf);
    /* at half rate the label may re-anchor to the true position (it drifts by one across an odd-length link) */
    if(after!=before+((ogg_int64_t)got<<hs) && !(hs && after==L->start+((ogg_int64_t)cu->idx<<hs))){ res_viol("C20","tell-advance","%s: hs=%d %lld -> %lld after %ld samples",ctx,hs,(long long)before,(long long)after,got); return -1; }
  }
  return 0;
}
/* C20 refusal clause: a file in which some link has 64-sample short blocks must refuse half-rate and stay exactly as it was */
static void case_c20r(const drvargs_t *a,long id){
  rng_t r; rng_seed(&r,a->seed,201,(uint64_t)id);
  res_begin(id);
  buf_t phys; buf_init(&phys); char desc[400]; size_t k=0; int nl=(int)rng_range(&r,1,4); int pos64=(int)rng_below(&r,(uint32_t)nl);
  k+=snprintf(desc+k,sizeof desc-k,"links=%d, link %d model-made with 64-sample short blocks:",nl,pos64);
  for(int i=0;i<nl;i++){
    pktlist_t pk; pktlist_init(&pk); encres_t er; int enc=0;
    if(i==pos64){
      sp_setup *S=NULL; for(int t=0;t<200;t++){ S=sp_gen_setup(&r,3,1); if(S->bs0exp==6 && S->channels<=8) break; sp_free_setup(S); S=NULL; }
      if(!S){ res_sample("no 64-block setup drawn"); res_end(); buf_free(&phys); return; }
      sp_gen_stream(&r,S,(int)rng_range(&r,6,40),&pk,(int)rng_below(&r,2));
      k+=snprintf(desc+k,sizeof desc-k," [model ch%d bs%d/%d]",S->channels,1<<S->bs0exp,1<<S->bs1exp); sp_free_setup(S);
    } else {
      enccfg_t c; enccfg_default(&c); c.channels=(int)rng_range(&r,1,2); c.rate= rng_chance(&r,0.5)?44100:22050; c.nsamples=rng_range(&r,2000,9000); c.sigseed=rng_next(&r); c.quality=(float)rng_unit(&r);
      if(enc_run(&c,&er)){ encres_free(&er); continue; } pk=er.pk; enc=1; k+=snprintf(desc+k,sizeof desc-k," [enc ch%d N=%ld]",c.channels,c.nsamples);
    }
    (void)enc; mux_stream(&pk,1000+i*17+(int)(id&0xffff),(int)rng_below(&r,PAGE_NKINDS),(int)rng_range(&r,1,8000),rng_next(&r),&phys); pktlist_free(&pk);
  }
  vh_dump("stream.ogg",phys.p,phys.n);
  handle_t A,B;
  if(h_open(&A,phys.p,phys.n,1)||h_open(&B,phys.p,phys.n,1)){ res_viol("C20","refusal:open-failed","%s",desc); h_close(&A); h_close(&B); buf_free(&phys); res_end(); return; }
  ogg_int64_t T=ov_pcm_total(&A.vf,-1);
  for(int round=0;round<6 && !res_nviol();round++){
    /* bring both to the same position by the same history */
    ogg_int64_t p= T>0?(ogg_int64_t)rng_range(&r,0,(long)T-1):0; if(round==0) p=0;
    int sa=ov_pcm_seek(&A.vf,p), sb=ov_pcm_seek(&B.vf,p); if(sa||sb){ if(sa!=sb) res_viol("C20","refusal:twins-diverge","seek %d vs %d",sa,sb); continue; }
    { float **pa,**pb; int ba,bb; long n=rng_range(&r,0,700); long ga= n?ov_read_float(&A.vf,&pa,(int)n,&ba):0; long gb= n?ov_read_float(&B.vf,&pb,(int)n,&bb):0; if(ga!=gb) res_viol("C20","refusal:twins-diverge","read %ld vs %ld",ga,gb); }
    ogg_int64_t before=ov_pcm_tell(&B.vf);
    int rh=ov_halfrate(&B.vf,1); res_eval(1);
    if(rh==0){ res_viol("C20","halfrate-accepted-with-64-sample-blocks","ov_halfrate(1) returned 0: %s",desc); break; }
    if(ov_halfrate_p(&B.vf)!=0) res_viol("C20","refused-but-flag-left-set","ov_halfrate returned %d but ov_halfrate_p says %d: %s",rh,ov_halfrate_p(&B.vf),desc);
    if(ov_pcm_tell(&B.vf)!=before) res_viol("C20","refused-but-position-moved","tell %lld -> %lld: %s",(long long)before,(long long)ov_pcm_tell(&B.vf),desc);
    if(ov_pcm_total(&B.vf,-1)!=T) res_viol("C20","refused-but-total-changed","%lld vs %lld",(long long)ov_pcm_total(&B.vf,-1),(long long)T);
    /* full-rate decoding intact at the same position: identical to the twin that never asked */
    long want=rng_range(&r,500,6000), got=0;
    while(got<want){
      float **pa,**pb; int ba=-1,bb=-1; long ga=ov_read_float(&A.vf,&pa,512,&ba); long gb=ov_read_float(&B.vf,&pb,(int)(ga>0?ga:512),&bb);
      if(ga<=0||gb<=0){ if(ga!=gb) res_viol("C20","refused-but-decode-differs","read returns %ld vs %ld after the refusal: %s",ga,gb,desc); break; }
      if(gb!=ga||ba!=bb){ res_viol("C20","refused-but-decode-differs","count/link %ld/%d vs %ld/%d",ga,ba,gb,bb); break; }
      int ch=ov_info(&A.vf,ba)->channels; int bad=0;
      for(int c=0;c<ch&&!bad;c++) if(memcmp(pa[c],pb[c],sizeof(float)*ga)){ res_viol("C20","refused-but-decode-differs","audio differs from the handle that never asked (link %d ch %d) after the refusal: %s",ba,c,desc); bad=1; }
      if(bad) break; got+=ga;
      if(ov_pcm_tell(&A.vf)!=ov_pcm_tell(&B.vf)){ res_viol("C20","refused-but-position-moved","tells %lld vs %lld",(long long)ov_pcm_tell(&A.vf),(long long)ov_pcm_tell(&B.vf)); break; }
    }
    if(!res_nviol()) res_bucket("refusal|links%d|pos%d|%s",nl,pos64,round==0?"at-start":"mid-stream");
  }
  res_sample("%s",desc);
  h_close(&A); h_close(&B); buf_free(&phys); res_end();
}
static void case_c20(const drvargs_t *a,long id){
  rng_t r; rng_seed(&r,a->seed,20,(uint64_t)id);
  chaindesc_t cd; buf_t phys; buf_init(&phys); char desc[700];
  res_begin(id);
  gen_chain(&r,a->thorough?6:4,a->thorough?30000:12000,GC_GOFFSET|GC_ALLOW_EMPTY|GC_MULTICH,&cd);
  chain_describe(&cd,desc,sizeof desc);
  if(build_chain(&cd,&phys,NULL)){ res_sample("encoder refused: %s",desc); res_end(); buf_free(&phys); return; }
  vh_dump("stream.ogg",phys.p,phys.n);
  refdec_t F,H; memset(&H,0,sizeof H);
  if(ref_decode(phys.p,phys.n,0,&F)){ res_viol("C20","fullrate-linear-broken","%s",F.err); ref_free(&F); res_end(); buf_free(&phys); return; }
  int rh=ref_decode(phys.p,phys.n,1,&H); res_eval(1);
  if(rh){ res_viol("C20","halfrate-linear-broken","%s: %s",H.err,desc); goto out; }
  if(H.total!=F.total) res_viol("C20","total-changed","half-rate total %lld, full %lld",(long long)H.total,(long long)F.total);
  for(int i=0;i<F.nlinks;i++){
    res_eval(1);
    if(H.l[i].len!=F.l[i].len) res_viol("C20","link-total-changed","link %d: %lld vs %lld",i,(long long)H.l[i].len,(long long)F.l[i].len);
    if(H.l[i].nout!=(F.l[i].len+1)/2) res_viol("C20","halfrate-sample-count","link %d of length %lld delivers %ld samples at half rate, expected %lld",i,(long long)F.l[i].len,H.l[i].nout,(long long)((F.l[i].len+1)/2));
    else res_bucket("count|%s|%s",(F.l[i].len&1)?"odd":"even",F.l[i].len==0?"zero":F.l[i].len<600?"tiny":"long");
  }
  if(res_nviol()) goto out;
  { /* streaming (no seek callback): the toggle comes before the first read; every link must then come out at half rate, bit-identical to the seekable half-rate decode */
    handle_t hsn; memset(&hsn,0,sizeof hsn);
    if(h_open(&hsn,phys.p,phys.n,0)){ res_viol("C20","open-failed","streaming: %s",desc); goto out; }
    int ret=ov_halfrate(&hsn.vf,1); res_eval(1);
    if(ret) res_viol("C20","toggle-refused","streaming: ov_halfrate(1) before the first read = %d: %s",ret,desc);
    else {
      long got[VH_MAXLINKS]; memset(got,0,sizeof got); float **pcm; int bs=0; long g; int bad=0; int lastbs=-1;
      while(!bad && (g=ov_read_float(&hsn.vf,&pcm,(int)rng_range(&r,1,3000),&bs))!=0){
        if(g<0){ res_viol("C20","streaming-halfrate-read-failed","read returned %ld in link %d: %s",g,bs,desc); bad=1; break; }
        if(bs<0||bs>=H.nlinks){ res_viol("C20","streaming-halfrate-link-index","bitstream %d of %d",bs,H.nlinks); bad=1; break; }
        const reflink_t *L=&H.l[bs];
        if(got[bs]+g>L->nout){ res_viol("C20","halfrate-sample-count","streaming: link %d of length %lld delivers more than %ld samples with half-rate on: %s",bs,(long long)F.l[bs].len,L->nout,desc); bad=1; break; }
        for(int c=0;c<L->ch && !bad;c++) if(memcmp(pcm[c],L->pcm[c]+got[bs],sizeof(float)*g)){ res_viol("C20","streaming-halfrate-audio-differs","link %d ch %d at sample %ld differs from the seekable half-rate decode: %s",bs,c,got[bs],desc); bad=1; }
        got[bs]+=g; lastbs=bs; res_eval(1);
        if(ov_halfrate_p(&hsn.vf)!=1){ res_viol("C20","halfrate_p","streaming: reports %d inside link %d although half-rate was switched on and never off: %s",ov_halfrate_p(&hsn.vf),bs,desc); bad=1; }
      }
      for(int i=0;i<H.nlinks && !bad;i++) if(got[i]!=H.l[i].nout){ res_viol("C20","halfrate-sample-count","streaming: link %d of length %lld delivered %ld samples with half-rate on, expected %ld: %s",i,(long long)F.l[i].len,got[i],H.l[i].nout,desc); bad=1; }
      (void)lastbs;
      if(!bad) res_bucket("streaming|links%d",H.nlinks>3?4:H.nlinks);
    }
    h_close(&hsn);
  }
  if(res_nviol()) goto out;
  {
    handle_t h; if(h_open(&h,phys.p,phys.n,1)){ res_viol("C20","open-failed","%s",desc); goto out; }
    int hs=0; int nops=a->thorough?300:150; char ctx[160]; cur_t cu; cu.valid=0;
    for(int i=0;i<nops && !res_nviol();i++){
      int c=(int)rng_below(&r,100);
      const refdec_t *ref=hs?&H:&F;
      if(c<22){
        ogg_int64_t before=ov_pcm_tell(&h.vf); int want=!hs;
        /* "on" is any non-zero flag (the documentation says flag != 0 enables); what comes back from ov_halfrate_p is 0 or 1 */
        static const int onvals[]={1,1,2,5,-1,255,0x40000000};
        int flagval= want? onvals[rng_below(&r,7)] : 0;
        int ret=ov_halfrate(&h.vf,flagval); res_eval(1);
        ogg_int64_t after=ov_pcm_tell(&h.vf);
        if(vh_trace) fprintf(stderr,"halfrate(%d) at %lld -> %d tell %lld\n",want,(long long)before,ret,(long long)after);
        if(ret){ res_viol("C20","toggle-refused","ov_halfrate(%d) = %d on a stream without 64-sample blocks",want,ret); break; }
        if(ov_halfrate_p(&h.vf)!=want) res_viol("C20","halfrate_p","reports %d after ov_halfrate(%d)",ov_halfrate_p(&h.vf),flagval);
        hs=want; ref=hs?&H:&F;
        snprintf(ctx,sizeof ctx,"after ov_halfrate(%d) at %lld",want,(long long)before);
        /* position must be preserved (to the even position at or below it when switching on) */
        /* position must be preserved: exactly when switching off, to the half-rate grid point at or below when switching on */
        if(before>F.total){ if(after!=F.total) res_viol("C20","toggle-moved-position","%s: tell %lld (was past the total %lld)",ctx,(long long)after,(long long)F.total); }
        else if(after>before || after<before-2) res_viol("C20","toggle-moved-position","%s: tell %lld",ctx,(long long)after);
        cu.valid=0;
        if(!verify_hr(&h.vf,ref,hs,&r,2,ctx,&cu)) res_bucket("toggle|to%d|%s",hs,F.nlinks>1?"chain":"single");
      }else if(c<60){
        int api=(int)rng_below(&r,4); ogg_int64_t L=F.total; ogg_int64_t p; int cls=(int)rng_below(&r,4);
        if(cls==0||L==0) p=L?rng_range(&r,0,(long)L):0; else if(cls==1){ int l=(int)rng_below(&r,F.nlinks); p=F.l[l].start+rng_range(&r,-2,2); } else if(cls==2) p=L-rng_range(&r,0,3); else p=rng_range(&r,0,(long)L)|1;
        if(p<0)p=0; if(p>L)p=L;
        int ret; ogg_int64_t T;
        if(api==0){ ret=ov_pcm_seek(&h.vf,p); snprintf(ctx,sizeof ctx,"hs=%d pcm_seek(%lld)",hs,(long long)p); }
        else if(api==1){ ret=ov_pcm_seek_page(&h.vf,p); snprintf(ctx,sizeof ctx,"hs=%d pcm_seek_page(%lld)",hs,(long long)p); }
        else if(api==2){ int l=ref_link_of(&F,p); if(l<0)l=F.nlinks-1; double t=0; for(int k=0;k<l;k++) t+=(double)F.l[k].len/F.l[k].rate; t+=(double)(p-F.l[l].start+0.25)/F.l[l].rate;
          ret=ov_time_seek(&h.vf,t); snprintf(ctx,sizeof ctx,"hs=%d time_seek(%.9f)~%lld",hs,t,(long long)p); if(ret==OV_EINVAL && p==L) ret=-9999; }
        else { p=rng_range(&r,0,(long)phys.n); ret=ov_raw_seek(&h.vf,p); snprintf(ctx,sizeof ctx,"hs=%d raw_seek(%lld)",hs,(long long)p); }
        res_eval(1);
        if(ret==-9999) continue;
        T=ov_pcm_tell(&h.vf);
        if(vh_trace) fprintf(stderr,"%s -> %d tell %lld\n",ctx,ret,(long long)T);
        if(ret){ res_viol("C20","seek-failed","%s returned %d",ctx,ret); break; }
        if(api==0){
          /* half-rate grid of the containing link: link start + 2j; the landing point is the grid point at or below p
             (== "the even position at or below the target" whenever the link starts on an even sample) */
          ogg_int64_t expect=p; int l=ref_link_of(&F,p);
          if(hs && l>=0){ expect=F.l[l].start+(((p-F.l[l].start)>>1)<<1); }
          if(hs && l<0) expect=T; /* p==total: end of stream */
          if(T!=expect) res_viol("C20","pcm-seek-landing","%s: tell %lld, expected %lld",ctx,(long long)T,(long long)expect);
        }
        cu.valid=0;
        if(!res_nviol() && !verify_hr(&h.vf,ref,hs,&r,(int)rng_range(&r,1,3),ctx,&cu)) res_bucket("seek%d|hs%d|cls%d|%s",api,hs,cls,F.nlinks>1?"chain":"single");
      }else{
        snprintf(ctx,sizeof ctx,"hs=%d sequential",hs);
        verify_hr(&h.vf,ref,hs,&r,(int)rng_range(&r,1,8),ctx,&cu);
      }
    }
    h_close(&h);
  }
  /* streaming input: toggle before the first read only */
  if(!res_nviol()){
    OggVorbis_File vf; memsrc_t ms; memsrc_init(&ms,phys.p,phys.n,0);
    if(ov_open_callbacks(&ms,&vf,NULL,0,memsrc_cb(&ms))==0){
      int ret=ov_halfrate(&vf,1); res_eval(1);
      if(ret) res_viol("C20","streaming-toggle-refused","%d",ret);
      else{
        /* first link only is guaranteed to carry the flag in streaming mode; compare it */
        float **pcm; int bs; long n=0; int ok=1; long got;
        while(ok && (got=ov_read_float(&vf,&pcm,4096,&bs))>0 && bs==0){
          if(n+got>H.l[0].nout){ res_viol("C20","streaming-halfrate-count","link 0 delivers more than %ld",H.l[0].nout); ok=0; break; }
          for(int c=0;c<H.l[0].ch;c++) if(memcmp(pcm[c],H.l[0].pcm[c]+n,sizeof(float)*got)){ res_viol("C20","streaming-halfrate-pcm-differs","link 0 ch %d near %ld",c,n); ok=0; break; }
          n+=got;
        }
        if(ok && n!=H.l[0].nout && F.nlinks==1) res_viol("C20","streaming-halfrate-count","link 0 delivered %ld, expected %ld",n,H.l[0].nout);
        if(ok) res_bucket("streaming|first-link");
      }
      ov_clear(&vf);
    }
  }
out:
  res_sample("%s bytes=%zu total=%lld",desc,phys.n,(long long)F.total);
  ref_free(&F); ref_free(&H); res_end(); buf_free(&phys);
}

/* ------------------------------------------------------------------ C19 */
static double win_sq(int i,int n){ double s=sin(((double)i+0.5)/(2.0*n)*M_PI); double w=sin(0.5*M_PI*s*s); return w*w; }
static long hist_since_lap;   /* samples read since the last lapped seek of the replayed history (huge if none, or a plain seek since) */
static int hist_lap_dirty;   /* the last replayed history ended within a few thousand samples of a lapped seek with no plain seek since: what the handle
                                delivers next (and its hidden tail near a link end) may still be the earlier cross-fade, not the stream's own audio */
static int replay_history(OggVorbis_File *vf,uint64_t hseed,int hs,const refdec_t *ref,size_t nbytes){
  rng_t r; rng_seed(&r,hseed,0x19,0); long since=1<<30; hist_lap_dirty=0;
  if(hs) if(ov_halfrate(vf,1)) return -1;
  int n=(int)rng_below(&r,5);
  for(int i=0;i<n;i++){
    int c=(int)rng_below(&r,6); float **pcm; int bs;
    if(vh_trace) fprintf(stderr,"  hist op %d (tell %lld)\n",c,(long long)ov_pcm_tell(vf));
    if(c==0){ ogg_int64_t p=ref->total?rng_range(&r,0,(long)ref->total):0; if(rng_chance(&r,0.7)){ if(ov_pcm_seek(vf,p)) return -2; since=1<<30; } else { int q=ov_pcm_seek_lap(vf,p); if(q && q!=OV_EOF) return -8; since=0; } }
    else if(c==1){ ogg_int64_t p=rng_range(&r,0,(long)nbytes); if(ov_raw_seek(vf,p)) return -3; since=1<<30; }
    else if(c==2){ int l=(int)rng_below(&r,ref->nlinks); ogg_int64_t p=ref->l[l].start+ref->l[l].len-(rng_chance(&r,0.4)?rng_range(&r,0,160):rng_range(&r,0,700)); if(p<0)p=0; if(ov_pcm_seek(vf,p)) return -4; since=1<<30; }
    else if(c==3){ ogg_int64_t p=ref->total-rng_range(&r,0,400); if(p<0)p=0; if(rng_chance(&r,0.5)){ if(ov_pcm_seek(vf,p)) return -5; since=1<<30; } else { int q=ov_pcm_seek_lap(vf,p); if(q && q!=OV_EOF) return -7; since=0; } }
    else { int k=(int)rng_range(&r,1,4); for(int j=0;j<k;j++){ long g=ov_read_float(vf,&pcm,(int)rng_range(&r,1,1500),&bs); if(g<0) return -6; if(since<(1<<29)) since+=g; } }
  }
  if(rng_chance(&r,0.1)){ float **pcm; int bs; int g=0; long q; while((q=ov_read_float(vf,&pcm,4096,&bs))>0 && g++<100000) if(since<(1<<29)) since+=q; }
  hist_since_lap=since; hist_lap_dirty= since<8192;
  return 0;
}
/* Independent derivation of "the audio that would have been read next" near the end of a link (full rate only): the link's
   packets are decoded through the packet interface with the end-of-stream flag and every granule position withheld, so nothing
   is trimmed; the last block's output is then consumed only up to the link-relative position rel, and one vorbis_synthesis_lapout
   in that state (unreturned audio still pending - not the state vorbisfile is in after reading to the end of a trimmed link)
   hands out what follows rel: the samples the final granule position trims away and then the last block's un-overlapped half.
   Self-check: the untrimmed decode must agree with the reference decode on the last block's delivered part, else nothing is
   judged.  Returns the number of samples written to out[c][0..want), 0 when not applicable. */
static int untrimmed_continuation(const unsigned char *d,size_t nbytes,const reflink_t *L,long rel,int want,float **out){
  ogg_sync_state oy; ogg_stream_state os; ogg_page og; ogg_packet op; vorbis_info vi; vorbis_comment vc; vorbis_dsp_state vd; vorbis_block vb;
  int have_os=0,nhead=0,dsp=0,got=0; long count=0,last_start=0,last_n=0; size_t pos=0; int bad=0;
  ogg_sync_init(&oy); vorbis_info_init(&vi); vorbis_comment_init(&vc);
  /* all audio packets of the link first (the last one must be known before it is decoded) */
  pktlist_t pk; pktlist_init(&pk);
  while(!bad){
    int r=ogg_sync_pageout(&oy,&og);
    if(r==0){ if(pos>=nbytes) break; size_t k=nbytes-pos>65536?65536:nbytes-pos; char *b=ogg_sync_buffer(&oy,(long)k); memcpy(b,d+pos,k); ogg_sync_wrote(&oy,(long)k); pos+=k; continue; }
    if(r<0) continue;
    if(ogg_page_serialno(&og)!=(int)L->serial) { if(have_os && nhead>=3 && ogg_page_bos(&og)) break; continue; }   /* pages of a multiplexed foreign stream are skipped; the next BOS page ends the link */
    if(!have_os){ ogg_stream_init(&os,(int)L->serial); have_os=1; }
    ogg_stream_pagein(&os,&og);
    while(ogg_stream_packetout(&os,&op)>0){
      if(nhead<3){ if(vorbis_synthesis_headerin(&vi,&vc,&op)){ bad=1; break; } nhead++; }
      else pktlist_push(&pk,&op);
    }
  }
  if(!bad && nhead==3 && pk.n>=2 && vi.channels==L->ch && vorbis_synthesis_init(&vd,&vi)==0){
    dsp=1; vorbis_block_init(&vd,&vb);
    for(int i=0;i<pk.n && !bad;i++){
      ogg_packet q; pkt_to_ogg(&pk.v[i],&q); q.e_o_s=0; q.granulepos=-1; q.b_o_s=0;
      if(vorbis_synthesis(&vb,&q)||vorbis_synthesis_blockin(&vd,&vb)){ bad=1; break; }
      float **pcm; int s=vorbis_synthesis_pcmout(&vd,&pcm);
      if(i<pk.n-1){ count+=s; vorbis_synthesis_read(&vd,s); continue; }
      last_start=count; last_n=s;
      if(rel<0||rel>last_start+last_n||rel>L->len||last_start-rel>=want){ bad=2; break; }
      long pre= rel<last_start ? last_start-rel : 0;     /* audio before the last block comes from the reference decode */
      /* self-check against the reference decode on [last_start, min(len,U)) */
      long lim=L->len-last_start; if(lim>last_n) lim=last_n;
      for(int c=0;c<L->ch && !bad;c++) for(long j=0;j<lim;j++) if(memcmp(&pcm[c][j],&L->pcm[c][last_start+j],4)){ bad=3; break; }
      if(bad) break;
      if(vh_trace) fprintf(stderr,"untrimmed: npk %d last_start %ld last_n %ld rel %ld len %lld pre %ld\n",pk.n,last_start,last_n,rel,(long long)L->len,pre);
      for(int c=0;c<L->ch;c++) if(pre>0) memcpy(out[c],L->pcm[c]+rel,sizeof(float)*pre);
      vorbis_synthesis_read(&vd,(int)(rel+pre-last_start));
      float keep=(rel+pre-last_start<last_n)?pcm[0][rel+pre-last_start]:0; int cw=vd.centerW, pr=vd.pcm_returned, pc=vd.pcm_current;
      float **lp; int ls=vorbis_synthesis_lapout(&vd,&lp);
      if(vh_trace) fprintf(stderr,"  lapout: lW %ld W %ld centerW %d ret %d cur %d -> ret %d cur %d ls %d keep %.6g lp0 %.6g\n",vd.lW,vd.W,cw,pr,pc,vd.pcm_returned,vd.pcm_current,ls,keep,lp[0][0]);
      if(ls>want-pre) ls=(int)(want-pre);
      for(int c=0;c<L->ch;c++) if(ls>0) memcpy(out[c]+pre,lp[c],sizeof(float)*ls);
      got=(int)pre+(ls>0?ls:0);
    }
  }
  if(dsp){ vorbis_block_clear(&vb); vorbis_dsp_clear(&vd); }
  pktlist_free(&pk);
  if(have_os) ogg_stream_clear(&os);
  vorbis_comment_clear(&vc); vorbis_info_clear(&vi); ogg_sync_clear(&oy);
  return bad?0:got;
}

static void case_c19(const drvargs_t *a,long id){
  rng_t r; rng_seed(&r,a->seed,19,(uint64_t)id);
  chaindesc_t cd; buf_t phys; buf_init(&phys); char desc[700];
  res_begin(id);
  gen_chain(&r,a->thorough?6:4,a->thorough?24000:10000,GC_GOFFSET|GC_ALLOW_EMPTY|GC_MULTICH,&cd);
  chain_describe(&cd,desc,sizeof desc);
  if(id%4==3){ if(build_chain_mixed(&r,&cd,pick_modelmask(&r,cd.nlinks),40,8,&phys,NULL,desc,sizeof desc)){ res_sample("refused: %s",desc); res_end(); buf_free(&phys); return; } }
  else
  { size_t loff19[VH_MAXLINKS+1]; int rc= (id%6==5)? build_chain(&cd,&phys,loff19) : build_chain(&cd,&phys,NULL);
    if(rc){ res_sample("encoder refused: %s",desc); res_end(); buf_free(&phys); return; }
    if(id%6==5){ /* "all seekable streams": links with a foreign logical stream multiplexed in (vorbisfile skips its pages); what would have been read next at the old position may lie behind a foreign page */
      buf_t q; buf_init(&q); size_t dl=strlen(desc);
      for(int i=0;i<cd.nlinks;i++){ buf_t one; one.p=phys.p+loff19[i]; one.n=loff19[i+1]-loff19[i]; one.cap=one.n;
        if(rng_chance(&r,0.8)){ int where=(int)rng_below(&r,4); if(rng_chance(&r,0.3)) where|=4; mux_add_foreign(&one,0x0f00d200+i,rng_next(&r),where,&q); if(dl+40<sizeof desc) dl+=snprintf(desc+dl,sizeof desc-dl," {link %d +foreign stream}",i); }
        else buf_add(&q,one.p,one.n); }
      buf_free(&phys); phys=q; res_count("streams_with_multiplexed_foreign_streams",1); } }
  vh_dump("stream.ogg",phys.p,phys.n);
  refdec_t F; if(ref_decode(phys.p,phys.n,0,&F)){ res_viol("C19","linear-broken","%s",F.err); ref_free(&F); res_end(); buf_free(&phys); return; }
  int npairs=a->thorough?120:60;
  for(int it=0;it<npairs && !res_nviol();it++){
    handle_t A,B,C; uint64_t hseed=rng_next(&r); int hs=rng_chance(&r,0.2);
    if(h_open(&A,phys.p,phys.n,1)||h_open(&B,phys.p,phys.n,1)||h_open(&C,phys.p,phys.n,1)){ res_viol("C19","open-failed","%s",desc); h_close(&A);h_close(&B);h_close(&C); break; }
    int ha=replay_history(&A.vf,hseed,hs,&F,phys.n), hb=replay_history(&B.vf,hseed,hs,&F,phys.n), hc=replay_history(&C.vf,hseed,hs,&F,phys.n);
    if(ha||hb||hc){ if(ha!=hb||hb!=hc) res_viol("C19","history-nondeterministic","%d %d %d",ha,hb,hc); h_close(&A);h_close(&B);h_close(&C); continue; }
    ogg_int64_t old=ov_pcm_tell(&B.vf);
    if(ov_pcm_tell(&A.vf)!=old||ov_pcm_tell(&C.vf)!=old){ res_viol("C19","twins-desync","%lld %lld %lld",(long long)ov_pcm_tell(&A.vf),(long long)old,(long long)ov_pcm_tell(&C.vf)); h_close(&A);h_close(&B);h_close(&C); continue; }
    int api=(int)rng_below(&r,5); ogg_int64_t L=F.total; ogg_int64_t p=0; double t=0; int cls=(int)rng_below(&r,6);
    double dur=0; for(int k=0;k<F.nlinks;k++) dur+=(double)F.l[k].len/F.l[k].rate;
    if(api==0){ p= cls==5? -rng_range(&r,1,50): cls==4?(ogg_int64_t)phys.n+rng_range(&r,1,50): rng_range(&r,0,(long)phys.n); }
    else if(api<=2){ p= cls==0?(L?rng_range(&r,0,(long)L):0): cls==1?L: cls==2?F.l[rng_below(&r,F.nlinks)].start+rng_range(&r,-2,2): cls==3?L-rng_range(&r,0,300): cls==4?L+rng_range(&r,1,99):-rng_range(&r,1,99); }
    else { t= cls==4?dur+1: cls==5?-1.0: cls==1?dur*0.999999: rng_unit(&r)*dur; }
    int ra,rb; char ctx[200];
    static const char *nm[]={"raw_seek","pcm_seek","pcm_seek_page","time_seek","time_seek_page"};
    if(api<=2) snprintf(ctx,sizeof ctx,"%s(%lld) hs=%d old=%lld hist=%llx",nm[api],(long long)p,hs,(long long)old,(unsigned long long)hseed);
    else snprintf(ctx,sizeof ctx,"%s(%.9f) hs=%d old=%lld hist=%llx",nm[api],t,hs,(long long)old,(unsigned long long)hseed);
    if(vh_trace) fprintf(stderr,"about to: %s\n",ctx);
    int c_state=C.vf.ready_state, c_link=C.vf.current_link;   /* B is in the same state (twin) */
    int maxn0=0; for(int k=0;k<F.nlinks;k++) if((int)(F.l[k].bs0>>(1+hs))>maxn0) maxn0=(int)(F.l[k].bs0>>(1+hs));
    switch(api){
    case 0: ra=ov_raw_seek(&A.vf,p); rb=ov_raw_seek_lap(&B.vf,p); break;
    case 1: ra=ov_pcm_seek(&A.vf,p); rb=ov_pcm_seek_lap(&B.vf,p); break;
    case 2: ra=ov_pcm_seek_page(&A.vf,p); rb=ov_pcm_seek_page_lap(&B.vf,p); break;
    case 3: ra=ov_time_seek(&A.vf,t); rb=ov_time_seek_lap(&B.vf,t); break;
    default: ra=ov_time_seek_page(&A.vf,t); rb=ov_time_seek_page_lap(&B.vf,t); break;
    }
    res_eval(1);
    if(vh_trace) fprintf(stderr,"%s -> plain %d lapped %d\n",ctx,ra,rb);
    if(ra!=0){
      if(rb==0) res_viol("C19","lapped-succeeds-where-plain-fails","%s: plain %d lapped %d",ctx,ra,rb);
      else res_bucket("bothfail|%s|cls%d",nm[api],cls);
      h_close(&A);h_close(&B);h_close(&C); continue;
    }
    ogg_int64_t TA=ov_pcm_tell(&A.vf);
    if(rb!=0){
      /* allowed: OV_EOF when nothing to lap: no audio follows the target, or B had no decode state at end of stream */
      int nothing_follows=(TA>=L);
      int at_end_before=(old>=L && c_state<4 /*INITSET*/);
      if(rb==OV_EOF && (nothing_follows||at_end_before)) res_bucket("eof-allowed|%s|%s",nm[api],nothing_follows?"target-end":"old-end");
      else res_viol("C19","lapped-fails-where-plain-succeeds","%s: plain 0 (tell %lld) lapped %d",ctx,(long long)TA,rb);
      h_close(&A);h_close(&B);h_close(&C); continue;
    }
    ogg_int64_t TB=ov_pcm_tell(&B.vf);
    if(TA!=TB){ res_viol("C19","lapped-lands-elsewhere","%s: plain tell %lld lapped tell %lld",ctx,(long long)TA,(long long)TB); h_close(&A);h_close(&B);h_close(&C); continue; }
    /* region length: n = min(half short block of the old link, of the new link), halved again at half rate.  The old
       link is known exactly only when the handle had a live decoder (INITSET) in a known link; otherwise the helper
       that sets one up may land in a neighbouring link, and the largest short block of the file bounds the region. */
    float **pa,**pb; int bsa=-1,bsb=-1;
    long z=ov_read_float(&A.vf,&pa,0,&bsa); (void)z;      /* prime A without consuming */
    vorbis_info *vin=ov_info(&A.vf,-1);
    int n_new=(int)(vorbis_info_blocksize(vin,0)>>(1+hs));
    int old_unambiguous=(c_state==4 && c_link>=0 && c_link<F.nlinks);
    int n_old= old_unambiguous ? (int)(F.l[c_link].bs0>>(1+hs)) : maxn0;
    int ch_old= old_unambiguous ? F.l[c_link].ch : 0;
    int n_old_safe=n_old;
    int n=n_old_safe<n_new?n_old_safe:n_new;
    long pend=vorbis_synthesis_pcmout(&A.vf.vd,NULL);
    /* old_next: what C delivers next without leaving its link; at end of stream fall back to lapout / silence */
    float *oldn[256]; int have_old=old_unambiguous; for(int c=0;c<ch_old&&c<256;c++) oldn[c]=calloc(n_old>0?n_old:1,sizeof(float));
    int old_tail=0, c_lap=0;   /* c_lap: samples the twin's decoder still held behind the link's end (0: a decoder with nothing decoded, e.g. right after a seek to the very end - the continuation is then silence) */
    if(old_unambiguous){
      long cnt=0; int link0=c_link;
      /* samples left in the old link at the old position; never ask C for more, so that its decoder still belongs to that link */
      ogg_int64_t lend=F.l[link0].start+F.l[link0].len;
      long rem= old>=lend ? 0 : (long)(((lend-old)+hs)>>hs);
      long lim= rem<n_old?rem:n_old;
      while(cnt<lim){
        float **pc; int bsc;
        long g=ov_read_float(&C.vf,&pc,(int)(lim-cnt),&bsc);
        if(g<=0) break;
        if(bsc!=link0) break;
        for(int c=0;c<ch_old&&c<256;c++) memcpy(oldn[c]+cnt,pc[c],sizeof(float)*g);
        cnt+=g;
      }
      if(cnt<lim) have_old=0;
      else if(cnt<n_old){
        /* end of the link: the rest is the decoder's pending overlap half (public vorbis_synthesis_lapout), or silence */
        if(C.vf.ready_state==4 && C.vf.current_link==link0){
          float **lp; int ls=vorbis_synthesis_lapout(&C.vf.vd,&lp);
          if(ls>n_old-cnt) ls=(int)(n_old-cnt);
          for(int c=0;c<ch_old&&c<256;c++) if(ls>0) memcpy(oldn[c]+cnt,lp[c],sizeof(float)*ls);
          old_tail= cnt>0?2:1; c_lap=ls;
        } else have_old=0;
      }
    }
    /* near the end of the old link the continuation is also derived without vorbisfile and without the state lapout is in there */
    /* a lapped seek splices at most half a short block (of the larger of the file's short blocks) after its target; once that much has been read the handle delivers the stream's own audio again */
    { long mx=0; for(int k=0;k<F.nlinks;k++) if(F.l[k].bs0/2>mx) mx=F.l[k].bs0/2; hist_lap_dirty= hist_since_lap<mx; }
    if(have_old && old_unambiguous && old_tail && !hs && ch_old<=256 && c_lap<=0) res_count("link_end_continuation_silent_no_block_decoded",1);
    else if(have_old && old_unambiguous && old_tail && !hs && ch_old<=256 && hist_lap_dirty) res_count("link_end_continuation_not_judged_after_recent_lapped_seek",1);
    else if(have_old && old_unambiguous && old_tail && !hs && ch_old<=256){
      float *cont[256]; for(int c=0;c<ch_old;c++) cont[c]=calloc(n_old>0?n_old:1,sizeof(float));
      int g=untrimmed_continuation(phys.p,phys.n,&F.l[c_link],(long)(old-F.l[c_link].start),n_old,cont);
      if(g>0){
        int same=1; for(int c=0;c<ch_old&&same;c++) if(memcmp(cont[c],oldn[c],sizeof(float)*n_old)) same=0;
        if(vh_trace) fprintf(stderr,"cont: old %lld link %d start %lld len %lld n_old %d cnt-tail %d g %d same %d  cont0 %.6g oldn0 %.6g cont[last] %.6g oldn[last] %.6g\n",(long long)old,c_link,(long long)F.l[c_link].start,(long long)F.l[c_link].len,n_old,old_tail,g,same,cont[0][0],oldn[0][0],cont[0][n_old-1],oldn[0][n_old-1]);
        res_count(same?"link_end_continuation_agrees_with_untrimmed_decode":"link_end_continuation_differs_from_untrimmed_decode",1);
        for(int c=0;c<ch_old;c++) memcpy(oldn[c],cont[c],sizeof(float)*n_old);
      } else res_count("link_end_continuation_not_derivable",1);
      for(int c=0;c<ch_old;c++) free(cont[c]);
    }
    /* read from both twins in lockstep and compare */
    long idx=0; int fail=0; long want=n+ (long)rng_range(&r,200,3000);
    int ch=vin->channels;
    float *bbuf[256],*abuf[256]; for(int c=0;c<ch&&c<256;c++){ abuf[c]=malloc(sizeof(float)*want); bbuf[c]=malloc(sizeof(float)*want); }
    long na=0,nb=0;
    while(na<want){ long g=ov_read_float(&A.vf,&pa,(int)(want-na),&bsa); if(g<=0)break; if(ov_info(&A.vf,-1)->channels!=ch)break; for(int c=0;c<ch&&c<256;c++) memcpy(abuf[c]+na,pa[c],sizeof(float)*g); na+=g; if(bsa!=ref_link_of(&F,TA)) break; }
    while(nb<na){ long g=ov_read_float(&B.vf,&pb,(int)(na-nb),&bsb); if(g<=0)break; if(ov_info(&B.vf,-1)->channels!=ch)break; for(int c=0;c<ch&&c<256;c++) memcpy(bbuf[c]+nb,pb[c],sizeof(float)*g); nb+=g; }
    res_eval(1);
    if(nb!=na){ res_viol("C19","lapped-delivers-different-count","%s: plain %ld lapped %ld samples",ctx,na,nb); fail=1; }
    for(int c=0;c<ch&&c<256&&!fail;c++){
      for(idx=n;idx<na;idx++) if(memcmp(&abuf[c][idx],&bbuf[c][idx],4)){ res_viol("C19","differs-after-lap-region","%s: ch %d sample %ld (region %d): plain %.9g lapped %.9g",ctx,c,idx,n,abuf[c][idx],bbuf[c][idx]); fail=1; break; }
    }
    if(!fail && have_old && old_unambiguous && n_old<=n_old_safe && pend>=n && na>=n){
      n=n_old<n_new?n_old:n_new;
      for(int c=0;c<ch&&c<256&&!fail;c++) for(int i=0;i<n;i++){
        double wd=win_sq(i,n); double e= (c<ch_old)? abuf[c][i]*wd+oldn[c][i]*(1.0-wd) : abuf[c][i]*wd;
        double tol=4e-6*(fabs(abuf[c][i])+(c<ch_old?fabs(oldn[c][i]):0))+1e-9;
        if(fabs(bbuf[c][i]-e)>tol){ res_viol("C19","lap-region-not-crossfade","%s: ch %d i %d of %d: lapped %.9g expected %.9g (new %.9g old %.9g w2 %.6f)",ctx,c,i,n,bbuf[c][i],e,abuf[c][i],c<ch_old?oldn[c][i]:0.0,wd); fail=1; break; }
      }
      if(!fail) res_count(old_tail==2?"crossfade_verified_straddling_link_end":old_tail?"crossfade_regions_verified_at_link_end":"crossfade_regions_verified",1);
    }
    if(!fail) res_bucket("%s|cls%d|hs%d|%s|%s|ch%d-%d",nm[api],cls,hs,have_old?(old_tail==2?"old-straddle":old_tail?"old-tail":"old-mid"):"old-end",n_old==n_new?"same-bs":"diff-bs",ch_old>2?3:ch_old,ch>2?3:ch);
    for(int c=0;c<ch&&c<256;c++){ free(abuf[c]); free(bbuf[c]); }
    for(int c=0;c<ch_old&&c<256;c++) free(oldn[c]);
    h_close(&A);h_close(&B);h_close(&C);
  }
  /* ov_crosslap between two handles on (possibly) different positions of the same file */
  for(int it=0;it<(a->thorough?20:8) && !res_nviol();it++){
    handle_t H1,H2,T2; uint64_t s1=rng_next(&r),s2=rng_next(&r);
    if(h_open(&H1,phys.p,phys.n,1)||h_open(&H2,phys.p,phys.n,1)||h_open(&T2,phys.p,phys.n,1)){ h_close(&H1);h_close(&H2);h_close(&T2); break; }
    int hs1=rng_chance(&r,0.3), hs2=rng_chance(&r,0.3);     /* the two handles need not agree on half-rate decoding */
    if(replay_history(&H1.vf,s1,hs1,&F,phys.n)||replay_history(&H2.vf,s2,hs2,&F,phys.n)||replay_history(&T2.vf,s2,hs2,&F,phys.n)){ h_close(&H1);h_close(&H2);h_close(&T2); continue; }
    ogg_int64_t t2=ov_pcm_tell(&H2.vf);
    int rc=ov_crosslap(&H1.vf,&H2.vf); res_eval(1);
    if(rc==0){
      /* at half rate positions are only known to one half-rate sample (two full-rate samples): two per sample returned, re-synchronised to the stream's (full-rate) granule positions whenever
         priming decodes a packet that carries one (after the last sample of an odd-length link the position is its end + 1, then the end itself) */
      if(ov_pcm_tell(&H2.vf)!=t2 && t2>=0 && !(hs2 && llabs(t2-ov_pcm_tell(&H2.vf))<=2)) res_viol("C19","crosslap-moved-second-handle","%lld -> %lld (half-rate: first %d second %d; total %lld): %s",(long long)t2,(long long)ov_pcm_tell(&H2.vf),hs1,hs2,(long long)F.total,desc);
      float **p2,**pt; int b2,bt; long z=ov_read_float(&T2.vf,&pt,0,&bt); (void)z;
      int n2=(int)(vorbis_info_blocksize(ov_info(&H2.vf,-1),0)>>(1+hs2)); int n1=(int)(vorbis_info_blocksize(ov_info(&H1.vf,-1),0)>>(1+hs1)); int n=n1<n2?n1:n2;
      /* H1's link at its position is only known for sure when it has a live decoder there; otherwise bound by the largest short block of the file */
      if(H1.vf.ready_state<4){ int mx=0; for(int k=0;k<F.nlinks;k++) if((int)(F.l[k].bs0>>(1+hs1))>mx) mx=(int)(F.l[k].bs0>>(1+hs1)); n1=mx; n= n1<n2?n1:n2; }
      long cnt=0; int bad=0;
      while(cnt<n+1500 && !bad){
        long g=ov_read_float(&H2.vf,&p2,512,&b2); if(g<=0)break;
        int ch=ov_info(&H2.vf,-1)->channels; long done=0;
        while(done<g){ long gt=ov_read_float(&T2.vf,&pt,(int)(g-done),&bt); if(gt<=0){bad=2;break;}
          for(int c=0;c<ch;c++) for(long i=0;i<gt;i++) if(cnt+done+i>=n && memcmp(&p2[c][done+i],&pt[c][i],4)){ bad=1; res_viol("C19","crosslap-altered-outside-region","ch %d sample %ld region %d",c,cnt+done+i,n); c=ch; break; }
          done+=gt; }
        cnt+=g;
      }
      if(!bad) res_bucket("crosslap|ok|hs%d%d",hs1,hs2);
    }else res_bucket("crosslap|ret%d",rc);
    h_close(&H1);h_close(&H2);h_close(&T2);
  }
  res_sample("%s bytes=%zu total=%lld",desc,phys.n,(long long)F.total);
  ref_free(&F); res_end(); buf_free(&phys);
}

int main(int argc,char **argv){
  drvargs_t a; if(drv_parse(argc,argv,&a)) return 2;
  for(long i=a.first;i<a.first+a.count;i++){
    if(!strcmp(a.mode,"c09")) case_c09(&a,i);
    else if(!strcmp(a.mode,"c10")) case_c10(&a,i);
    else if(!strcmp(a.mode,"c17")) case_c17(&a,i);
    else if(!strcmp(a.mode,"c19")) case_c19(&a,i);
    else if(!strcmp(a.mode,"c20")){ if(i%8==7) case_c20r(&a,i); else case_c20(&a,i); }
    else { fprintf(stderr,"unknown mode\n"); return 2; }
  }
  return 0;
}
