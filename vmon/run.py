"""Process pool, crash attribution, sanitizer-report parsing, evidence and
known-findings plumbing shared by every check."""
import json, os, re, resource, shutil, subprocess, sys, threading, time
from concurrent.futures import ThreadPoolExecutor
from . import build

VERIF = build.VERIF
EVID = os.environ.get("VERIF_EVIDENCE_DIR") or os.path.join(VERIF, "evidence")   # seedcheck points this elsewhere so that runs against patched trees never touch the committed evidence
WITNESS = os.path.join(EVID, "witness")
WORK = os.path.join(VERIF, ".work")
NWORKERS = int(os.environ.get("VERIF_WORKERS", "16"))

SAN_ENV = {
    "ASAN_OPTIONS": "exitcode=77:detect_leaks=1:allocator_may_return_null=1:malloc_context_size=14:"
                    "detect_stack_use_after_return=0:handle_abort=1:print_summary=1:max_allocation_size_mb=3072",
    "UBSAN_OPTIONS": "print_stacktrace=1:halt_on_error=1:exitcode=78",
    "LSAN_OPTIONS": "exitcode=79:max_leaks=8",
    "TSAN_OPTIONS": "halt_on_error=0:exitcode=66:second_deadlock_stack=1",
}


def _limits(stack_mb):
    def f():
        try:
            resource.setrlimit(resource.RLIMIT_STACK, (stack_mb << 20, stack_mb << 20))
        except Exception:
            pass
        resource.setrlimit(resource.RLIMIT_CORE, (0, 0))
    return f


_FRAME = re.compile(r"#\d+ 0x[0-9a-f]+ in (\S+) (\S+?)(?::(\d+))?(?::\d+)?$")


def parse_report(text):
    """Returns (kind, innermost /repo/lib function, summary line) from sanitizer/stderr text."""
    kind = None
    m = re.search(r"ERROR: (AddressSanitizer|LeakSanitizer|ThreadSanitizer): ([A-Za-z0-9_\- ]+?)(?: on | \(|:|$)", text, re.M)
    if m:
        kind = m.group(2).strip().replace(" ", "-")
        if m.group(1) == "LeakSanitizer":
            kind = "leak"
    m2 = re.search(r"^(\S+?):(\d+):\d+: runtime error: (.*)$", text, re.M)
    if m2 and (not m or m2.start() < m.start()):
        msg = m2.group(3)
        msg = re.sub(r"-?\d+", "N", msg)
        msg = re.sub(r"0x[0-9a-f]+", "P", msg)
        kind = "ubsan:" + msg[:60]
    if kind is None:
        mv = re.search(r"^==\d+== (Conditional jump or move depends on uninitialised value|Use of uninitialised value|Syscall param .* uninitialised|Invalid (?:read|write|free)|Mismatched free|Source and destination overlap)", text, re.M)
        if mv:
            kind = "valgrind:" + re.sub(r"[^a-z]+", "-", mv.group(1).lower()).strip("-")[:50]
            vf = None
            for line in text.splitlines():
                fm = re.search(r"(?:at|by) 0x[0-9A-F]+: (\S+) \(([\w.]+\.c):\d+\)", line)
                if fm and os.path.exists(os.path.join(build.REPO, "lib", fm.group(2))):
                    vf = fm.group(1)
                    break
            return kind, vf, mv.group(0)[:200]
    if kind is None:
        m3 = re.search(r"WARNING: ThreadSanitizer: ([a-z \-]+)", text)
        if m3:
            kind = "tsan:" + m3.group(1).strip().replace(" ", "-")
    func = None
    for line in text.splitlines():
        fm = _FRAME.search(line.strip())
        if fm and "/lib/" in fm.group(2) and "/harness/" not in fm.group(2) and \
           (fm.group(2).startswith(build.REPO + "/") or "/lib/" in fm.group(2)):
            if fm.group(2).startswith(build.REPO + "/lib/") or "/repo" in fm.group(2):
                func = fm.group(1)
                break
    if func is None and kind and kind.startswith("tsan:"):
        # ThreadSanitizer frames: "#0 func /path/file.c:123 (binary+0x...)"
        for line in text.splitlines():
            tm = re.match(r"\s*#\d+ (\S+) (\S+?):\d+", line)
            if tm and "/lib/" in tm.group(2) and "/harness/" not in tm.group(2):
                func = tm.group(1)
                break
    if func is None:
        for line in text.splitlines():
            fm = _FRAME.search(line.strip())
            if fm and not fm.group(1).startswith("__") and "sanitizer" not in fm.group(2):
                func = fm.group(1) + "@harness" if "/harness/" in fm.group(2) else fm.group(1)
                break
    summ = ""
    ms = re.search(r"^SUMMARY: .*$", text, re.M)
    if ms:
        summ = ms.group(0)[:300]
    elif m2:
        summ = m2.group(0)[:300]
    return kind, func, summ


class Batch:
    def __init__(self, first, count):
        self.first, self.count = first, count


def _run_range(exe, mode, seed, tier, first, count, env, stack_mb, timeout, extra, wrapper=()):
    """Run one driver process over [first, first+count). Returns (records, crashes)."""
    records, crashes = [], []
    cur = first
    end = first + count
    retried_timeout = set()
    while cur < end:
        cmd = list(wrapper) + [exe, mode, str(seed), tier, str(cur), str(end - cur)] + list(extra)
        t0 = time.time()
        try:
            p = subprocess.run(cmd, stdout=subprocess.PIPE, stderr=subprocess.PIPE, env=env,
                               preexec_fn=_limits(stack_mb), timeout=timeout)
            rc, out, err, timed_out = p.returncode, p.stdout, p.stderr, False
        except subprocess.TimeoutExpired as e:
            rc, out, err, timed_out = -999, e.stdout or b"", e.stderr or b"", True
        out = out.decode("utf-8", "replace")
        err = err.decode("utf-8", "replace")
        started, done = None, None
        cpu_case = None
        last_ctx = ""
        for line in out.splitlines():
            if line.startswith("@ctx "):
                last_ctx = line[5:].strip()
                continue
            if line.startswith("@case "):
                started = int(line[6:])
                last_ctx = ""
            elif line.startswith("@done "):
                done = int(line[6:])
            elif line.startswith("@cpu "):
                cpu_case = int(line[5:])
            elif line.startswith("R "):
                try:
                    records.append(json.loads(line[2:]))
                except ValueError:
                    crashes.append({"case": started, "kind": "harness:bad-json", "func": None, "rc": rc,
                                    "summary": line[:200], "stderr": ""})
        finished_all = (done is not None and done == end - 1) or (count == 0)
        if rc == 0 and finished_all:
            break
        if rc == 0 and started is None and not timed_out:
            break  # driver produced nothing for this range (e.g. count beyond its space)
        # abnormal end
        victim = started if (started is not None and started != done) else None
        if timed_out:
            if victim is not None and victim not in retried_timeout and count > 1:
                # re-run the suspected case once alone before calling it a hang (watchdog = inconclusive first)
                retried_timeout.add(victim)
                r2, c2 = _run_range(exe, mode, seed, tier, victim, 1, env, stack_mb, timeout, extra, wrapper)
                records += r2
                for c in c2:
                    crashes.append(c)
                cur = victim + 1
                continue
            crashes.append({"case": victim, "kind": "watchdog-timeout", "func": None, "rc": rc,
                            "summary": "wall-clock watchdog %ss fired twice" % timeout, "stderr": err[-3000:]})
            cur = (victim if victim is not None else cur) + 1
            continue
        kind, func, summ = parse_report(err)
        if cpu_case is not None:
            kind, func, summ = "cpu-budget", None, "CPU budget exceeded in one case"
            victim = cpu_case
        if kind is None:
            if rc < 0:
                kind = "signal-%d" % (-rc)
            else:
                kind = "exit-%d" % rc
        if kind == "leak" and victim is None and finished_all:
            # LeakSanitizer runs at exit: attribute by re-running each case alone
            if count > 1:
                for cid in range(first, end):
                    _, c1 = _run_range(exe, mode, seed, tier, cid, 1, env, stack_mb, timeout, extra, wrapper)
                    crashes += c1
            else:
                crashes.append({"case": first, "kind": "leak", "func": func, "rc": rc, "summary": summ,
                                "stderr": err[-6000:]})
            break
        if last_ctx and func is None:
            # no library frame to key on (budget overrun, bare signal): key on what the driver was doing
            func = "during " + re.sub(r"@\d+", "", last_ctx)
            summ = (summ + " | last context: " + last_ctx)[:400]
        crashes.append({"case": victim, "kind": kind, "func": func, "rc": rc, "summary": summ,
                        "stderr": err[-6000:]})
        if victim is None:
            break  # cannot make progress attribution; stop this range
        cur = victim + 1
    return records, crashes


class Ctx:
    """Accumulates what one check observed and turns it into evidence + exit code."""

    def __init__(self, prop, tier, seed, level="exploration"):
        self.prop, self.tier, self.seed, self.level = prop, tier, seed, level
        self.t0 = time.time()
        self.evals = 0
        self.buckets = set()
        self.samples = []
        self.counts = {}
        self.viols = []        # dicts: prop,key,detail,replay(dict)
        self.cross = {}        # violations belonging to other properties (not gated here)
        self.harness_errors = []
        self.rule = ""
        self.assumptions = []
        self.extra = {}
        self.cases_run = 0
        self.metrics = {}      # name -> [min, max, n]

    def add_count(self, k, n=1):
        self.counts[k] = self.counts.get(k, 0) + n

    def run(self, flavour, driver, mode, ncases, batch=None, extra=(), stack_mb=64, timeout=900,
            env_extra=None, gate=None, extra_cflags=(), extra_src=(), extra_ld=(), workers=None, wrapper=()):
        """Build driver in flavour and run cases [0,ncases) in parallel batches."""
        gate = gate or (self.prop,)
        try:
            exe = build.build_driver(flavour, driver, extra_cflags, extra_src, extra_ld)
        except build.BuildError as e:
            self.harness_errors.append("build: " + str(e)[-1500:])
            return []
        env = dict(os.environ)
        env.update(SAN_ENV)
        if env_extra:
            env.update(env_extra)
        workers = workers or NWORKERS
        if batch is None:
            batch = max(1, (ncases + workers * 4 - 1) // (workers * 4))
        ranges = [(i, min(batch, ncases - i)) for i in range(0, ncases, batch)]
        allrec = []
        with ThreadPoolExecutor(workers) as ex:
            futs = [ex.submit(_run_range, exe, mode, self.seed, self.tier, a, n, env, stack_mb, timeout, list(extra), list(wrapper))
                    for a, n in ranges]
            for f in futs:
                recs, crashes = f.result()
                for r in recs:
                    self._absorb(r, gate, flavour, driver, mode, extra, env_extra)
                    allrec.append(r)
                for c in crashes:
                    self._crash(c, flavour, driver, mode, extra, env_extra)
        self.cases_run += len(allrec)
        seen = set(r["case"] for r in allrec)
        missing = ncases - len(seen)
        if missing > 0:
            self.add_count("cases_without_result", missing)
        return allrec

    def fuzz(self, target, jobs=16, runs=20000, corpus_n=240, max_len=20000, leaks=False, only_leaks=False, unit_timeout=60):
        """Coverage-guided stratum: libFuzzer (clang, ASan + gating UBSan kinds) over harness/fuzzmon.c.  `jobs` independent
        processes, each with its own copy of a generated seed corpus and its own -seed, each bounded by -runs (a count, not
        seconds).  A report is keyed like every other crash; a unit over the per-unit watchdog is re-run alone once before it
        counts as a hang; out-of-memory units are counted, not judged."""
        try:
            gen = build.build_driver("plain", "fuzzmon", ["-DFZ_CORPUS"], ["spec.c"])
            exe = build.build_driver("fuzz", "fuzzmon", (), ["spec.c"])
        except build.BuildError as e:
            self.harness_errors.append("build: " + str(e)[-1500:])
            return
        work = os.path.join(WORK, "fz-%s-%d" % (self.prop, os.getpid()))
        shutil.rmtree(work, ignore_errors=True)
        os.makedirs(os.path.join(work, "seedcorpus"))
        try:
            p = subprocess.run([gen, os.path.join(work, "seedcorpus"), str(self.seed), str(corpus_n)], stdout=subprocess.PIPE, stderr=subprocess.STDOUT, timeout=900)
            if p.returncode != 0:
                self.harness_errors.append("fuzz corpus generator failed: " + p.stdout.decode("utf-8", "replace")[-400:])
                return
            env = dict(os.environ)
            env["ASAN_OPTIONS"] = "detect_leaks=%d:allocator_may_return_null=1:malloc_context_size=14:max_allocation_size_mb=3072:quarantine_size_mb=16" % (1 if leaks else 0)
            env["UBSAN_OPTIONS"] = "print_stacktrace=1:halt_on_error=1"
            env["FZ_TARGET"] = target

            def one(j):
                cdir = os.path.join(work, "c%d" % j); adir = os.path.join(work, "a%d" % j)
                shutil.copytree(os.path.join(work, "seedcorpus"), cdir); os.makedirs(adir)
                cmd = [exe, cdir, "-max_len=%d" % max_len, "-timeout=%d" % unit_timeout, "-rss_limit_mb=3500", "-malloc_limit_mb=3000",
                       "-runs=%d" % runs, "-seed=%d" % (self.seed * 1000 + j + 1), "-artifact_prefix=" + adir + "/", "-print_final_stats=1",
                       "-detect_leaks=%d" % (1 if leaks else 0)]
                try:
                    q = subprocess.run(cmd, stdout=subprocess.PIPE, stderr=subprocess.STDOUT, env=env, preexec_fn=_limits(64), timeout=6 * 3600)
                    return j, q.returncode, q.stdout.decode("utf-8", "replace"), adir
                except subprocess.TimeoutExpired as e:
                    return j, -999, (e.stdout or b"").decode("utf-8", "replace"), adir
            with ThreadPoolExecutor(min(jobs, NWORKERS)) as ex:
                results = list(ex.map(one, range(jobs)))
            tot_units = 0; best_cov = 0; best_ft = 0; new_units = 0; ooms = 0
            for j, rc, out, adir in results:
                m = re.search(r"stat::number_of_executed_units:\s+(\d+)", out)
                units = int(m.group(1)) if m else 0
                tot_units += units
                m = re.search(r"stat::new_units_added:\s+(\d+)", out)
                new_units += int(m.group(1)) if m else 0
                for m in re.finditer(r"cov: (\d+) ft: (\d+)", out):
                    best_cov = max(best_cov, int(m.group(1))); best_ft = max(best_ft, int(m.group(2)))
                arts = sorted(os.listdir(adir))
                if rc == 0 and not arts:
                    continue
                art = os.path.join(adir, arts[0]) if arts else None
                tail = out[-12000:]
                if "libFuzzer: out-of-memory" in out or "AddressSanitizer: requested allocation size" in out or "AddressSanitizer: out of memory" in out:
                    ooms += 1
                    continue
                if "libFuzzer: timeout" in out and art:
                    q = subprocess.run([exe, art, "-timeout=%d" % (unit_timeout * 3)], stdout=subprocess.PIPE, stderr=subprocess.STDOUT, env=env, preexec_fn=_limits(64))
                    o2 = q.stdout.decode("utf-8", "replace")
                    if q.returncode == 0:
                        self.add_count("fuzz_units_over_watchdog_but_finished_alone", 1)
                        continue
                    tail = o2[-12000:]
                    kind, func, summ = parse_report(tail)
                    if "libFuzzer: timeout" in o2:
                        kind, summ = "hang", "one input ran past %d s alone" % (unit_timeout * 3)
                        fm = None
                        for line in o2.splitlines():
                            fm = _FRAME.search(line.strip())
                            if fm and "/lib/" in fm.group(2) and "/harness/" not in fm.group(2):
                                func = fm.group(1); break
                else:
                    kind, func, summ = parse_report(tail)
                    if kind is None and "FZ-MONITOR:" in out:
                        kind = "monitor"; func = re.search(r"FZ-MONITOR: (.*)", out).group(1)[:80]; summ = func
                    if kind is None:
                        kind = "exit-%s" % rc
                if rc == -999 and not arts:
                    self.harness_errors.append("fuzz job %d exceeded the outer watchdog" % j)
                    continue
                if kind and kind.startswith("exit-") and not art:
                    self.harness_errors.append("fuzz job %d ended with %s and no artifact: %s" % (j, kind, out[-300:]))
                    continue
                if only_leaks and kind != "leak":
                    self.cross["fuzz:" + str(kind) + ":" + str(func)] = self.cross.get("fuzz:" + str(kind) + ":" + str(func), 0) + 1
                    continue
                keep = None
                if art:
                    os.makedirs(os.path.join(WITNESS, self.prop), exist_ok=True)
                    keep = os.path.join(WITNESS, self.prop + "-fuzz-" + os.path.basename(art)[:40])
                    shutil.copy(art, keep)
                rp = {"flavour": "fuzz", "driver": "fuzzmon", "mode": "fuzz", "seed": self.seed, "tier": self.tier, "case": j,
                      "extra": [], "env": {"FZ_TARGET": target}, "artifact": keep}
                self.viols.append({"prop": self.prop, "key": "crash:%s:%s" % (kind, func or "?"), "detail": summ or kind, "replay": rp, "stderr": tail})
                self.add_count("abnormal_process_ends", 1)
            self.evals += tot_units
            self.cases_run += tot_units
            self.add_count("fuzz_units_executed", tot_units)
            self.add_count("fuzz_units_added_by_coverage", new_units)
            if ooms:
                self.add_count("fuzz_jobs_stopped_by_memory_limit_not_judged", ooms)
            self.metrics["fuzz_edges_covered_" + target] = [best_cov, best_cov, 1]
            self.metrics["fuzz_features_" + target] = [best_ft, best_ft, 1]
            for k in range(0, best_cov, 250):
                self.buckets.add("fuzz|%s|edges>=%d" % (target, k))
            if tot_units == 0:
                self.harness_errors.append("fuzz stratum executed no unit")
        finally:
            shutil.rmtree(work, ignore_errors=True)

    def _absorb(self, r, gate, flavour, driver, mode, extra, env_extra):
        self.evals += r.get("evals", 0)
        for b in r.get("buckets", []):
            self.buckets.add(mode + "|" + b)
        for k, v in r.get("counts", {}).items():
            self.add_count(k, v)
        for k, v in r.get("metrics", {}).items():
            m = self.metrics.get(k)
            if m is None:
                self.metrics[k] = [v[0], v[1], 1]
            else:
                m[0] = min(m[0], v[0]); m[1] = max(m[1], v[1]); m[2] += 1
        if r.get("sample") and len(self.samples) < 6 and (r.get("evals", 0) > 0):
            self.samples.append({"driver": driver, "mode": mode, "case": r["case"], "what": r["sample"],
                                 "evaluations": r.get("evals", 0)})
        for v in r.get("viol", []):
            rp = {"flavour": flavour, "driver": driver, "mode": mode, "seed": self.seed, "tier": self.tier,
                  "case": r["case"], "extra": list(extra), "env": env_extra or {}}
            if v["prop"] in gate:
                self.viols.append({"prop": self.prop, "key": v["key"], "detail": v["detail"], "replay": rp})
            else:
                self.cross[v["prop"] + ":" + v["key"]] = self.cross.get(v["prop"] + ":" + v["key"], 0) + 1

    def _crash(self, c, flavour, driver, mode, extra, env_extra):
        if c["kind"].startswith("tsan:") and not c["func"]:
            # a ThreadSanitizer report with no library frame in it is about the harness's own state
            self.harness_errors.append("%s case=%s (no /repo/lib frame) %s" % (c["kind"], c["case"], c["summary"]))
            return
        if c["kind"].startswith("harness:") or (c["func"] or "").endswith("@harness"):
            self.harness_errors.append("%s case=%s %s" % (c["kind"], c["case"], c["summary"]))
            return
        key = "crash:%s:%s" % (c["kind"], c["func"] or "?")
        rp = {"flavour": flavour, "driver": driver, "mode": mode, "seed": self.seed, "tier": self.tier,
              "case": c["case"], "extra": list(extra), "env": env_extra or {}}
        self.viols.append({"prop": self.prop, "key": key, "detail": c["summary"], "replay": rp,
                           "stderr": c.get("stderr", "")})
        self.add_count("abnormal_process_ends", 1)

    # ---------- finish ----------
    def finish(self, min_evals=1, min_buckets=2):
        kf = load_findings()
        known = [f for f in kf if f.get("status") == "known" and f.get("property") == self.prop]
        new, printed_known = [], {}
        for v in self.viols:
            hit = None
            for f in known:
                if f["key"] == v["key"]:
                    hit = f
                    break
            if hit:
                printed_known[hit["key"]] = hit
                self.add_count("known_finding_hits", 1)
            else:
                new.append(v)
        for k, f in printed_known.items():
            print("KNOWN-FINDING: property=%s %s [%s]" % (self.prop, f.get("what", ""), k))
        # de-duplicate new violations by key; keep first witness of each
        bykey = {}
        for v in new:
            bykey.setdefault(v["key"], []).append(v)
        wall = time.time() - self.t0
        nviol = len(bykey)
        os.makedirs(EVID, exist_ok=True)
        replay_paths = []
        if nviol:
            wdir = os.path.join(WITNESS, self.prop)
            shutil.rmtree(wdir, ignore_errors=True)
            for i, (k, vs) in enumerate(sorted(bykey.items())):
                v = vs[0]
                d = os.path.join(wdir, "v%02d" % i)
                os.makedirs(d, exist_ok=True)
                with open(os.path.join(d, "replay.json"), "w") as f:
                    json.dump({"property": self.prop, "key": k, "detail": v["detail"], "occurrences": len(vs),
                               "other_cases": [x["replay"]["case"] for x in vs[1:20]], "replay": v["replay"]}, f, indent=1)
                if v.get("stderr"):
                    with open(os.path.join(d, "stderr.txt"), "w") as f:
                        f.write(v["stderr"])
                replay_paths.append((k, d, v["detail"]))
        inconclusive = []
        if self.harness_errors:
            inconclusive.append("harness errors: %d" % len(self.harness_errors))
        if self.evals < min_evals:
            inconclusive.append("monitor observed %d evaluations (< %d)" % (self.evals, min_evals))
        if len(self.buckets) < min_buckets:
            inconclusive.append("only %d distinct buckets observed (< %d)" % (len(self.buckets), min_buckets))
        if self.counts.get("cases_without_result", 0) and not nviol and not printed_known:
            inconclusive.append("%d cases produced no result" % self.counts["cases_without_result"])
        ev = {
            "property_id": self.prop, "tier": self.tier, "seed": self.seed, "level": self.level,
            "coverage": {
                "evaluations": int(self.evals),
                "distinct_nontrivial": len(self.buckets),
                "rule": self.rule,
                "samples": self.samples[:6] if self.samples else [{"note": "no sample recorded"}],
                "cases_run": self.cases_run,
                "counters": dict(sorted(self.counts.items())),
                "buckets_seen": sorted(self.buckets)[:400],
                "cross_property_observations": self.cross,
                "known_findings_printed": sorted(printed_known.keys()),
                "verdict": "violated" if nviol else ("inconclusive" if inconclusive else "held on what was observed"),
                "inconclusive_reasons": inconclusive,
            },
            "assumptions": self.assumptions,
            "wall_s": round(wall, 2),
            "violations": nviol,
        }
        if self.metrics:
            ev["coverage"]["metrics_min_max_n"] = {k: v for k, v in sorted(self.metrics.items())[:300]}
        ev["coverage"].update(self.extra)
        with open(os.path.join(EVID, self.prop + ".json"), "w") as f:
            json.dump(ev, f, indent=1, sort_keys=False)
        print("%s tier=%s seed=%d: evaluations=%d distinct_buckets=%d cases=%d wall=%.1fs" %
              (self.prop, self.tier, self.seed, self.evals, len(self.buckets), self.cases_run, wall))
        for k, d, det in replay_paths:
            print("VIOLATION property=%s replay=%s  key=[%s] %s" % (self.prop, d, k, det[:300]))
        if nviol:
            return 1
        if inconclusive:
            for e in self.harness_errors[:10]:
                print("HARNESS-ERROR: " + e[:600], file=sys.stderr)
            print("INCONCLUSIVE: " + "; ".join(inconclusive), file=sys.stderr)
            return 2
        return 0


def load_findings():
    p = os.path.join(VERIF, "known_findings.json")
    try:
        with open(p) as f:
            return json.load(f).get("findings", [])
    except (OSError, ValueError):
        return []


def replay(path):
    with open(os.path.join(path, "replay.json")) as f:
        w = json.load(f)
    rp = w["replay"]
    if rp.get("artifact"):
        exe = build.build_driver("fuzz", "fuzzmon", (), ["spec.c"])
        env = dict(os.environ); env.update(rp.get("env") or {})
        env["ASAN_OPTIONS"] = "detect_leaks=1:allocator_may_return_null=1"
        art = rp["artifact"]
        if not os.path.exists(art):
            art = os.path.join(path, os.path.basename(art))
        p = subprocess.run([exe, art, "-timeout=180"], env=env, preexec_fn=_limits(64), stdout=subprocess.PIPE, stderr=subprocess.STDOUT)
        sys.stdout.write(p.stdout.decode("utf-8", "replace")[-8000:])
        print("replay: %s (rc=%d)" % ("violation reproduced" if p.returncode else "not reproduced", p.returncode))
        return 1 if p.returncode else 0
    exe = build.build_driver(rp["flavour"], rp["driver"])
    env = dict(os.environ)
    env.update(SAN_ENV)
    env.update(rp.get("env") or {})
    env["VH_DUMP"] = path
    cmd = [exe, rp["mode"], str(rp["seed"]), rp["tier"], str(rp["case"]), "1"] + rp.get("extra", [])
    print("replaying:", " ".join(cmd))
    p = subprocess.run(cmd, env=env, preexec_fn=_limits(64), stdout=subprocess.PIPE, stderr=subprocess.PIPE)
    out = p.stdout.decode("utf-8", "replace")
    err = p.stderr.decode("utf-8", "replace")
    sys.stdout.write(out)
    sys.stderr.write(err[-8000:])
    hit = False
    for line in out.splitlines():
        if line.startswith("R "):
            r = json.loads(line[2:])
            for v in r.get("viol", []):
                if v["key"] == w["key"]:
                    hit = True
    if p.returncode != 0 and w["key"].startswith("crash:"):
        kind, func, _ = parse_report(err)
        hit = True
    print("replay: %s (rc=%d)" % ("violation reproduced" if hit else "not reproduced", p.returncode))
    return 1 if hit else 0
