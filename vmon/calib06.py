"""Calibrates data/c06_envelope.txt on the current tree:  python3 -m vmon.calib06 [ncases] [seeds...]
Envelope[key] = (minimum SNR observed for key over the campaign) - 6 dB, then forced non-decreasing in the quality index
within each (rate band, channel class).  Keys: snr|<signal>|b<band>|q<qi>|c<chclass> and snr|<signal>|b<band>|abr<k>|c<chclass>."""
import os, sys, re
from . import build, run, props

def main(argv):
    n = int(argv[0]) if argv else 6000
    seeds = [int(x) for x in argv[1:]] or [101, 202, 303]
    mins = {}
    extra = {}
    for sd in seeds:
        ctx = run.Ctx("C06cal", "thorough", sd)
        ctx.run("san", "encmon", "c06", n, extra=["/nonexistent"], extra_ld=props.WRAP16)
        for k, v in ctx.metrics.items():
            if k.startswith("snr|"):
                m = mins.get(k)
                mins[k] = [min(v[0], m[0]) if m else v[0], (m[1] if m else 0) + v[2]]
            else:
                e = extra.get(k)
                extra[k] = [min(v[0], e[0]) if e else v[0], max(v[1], e[1]) if e else v[1]]
        print("seed", sd, "viols", [(v["key"], v["detail"][:200]) for v in ctx.viols][:10], "harness", ctx.harness_errors[:3])
    env = {k: v[0] - 6.0 for k, v in mins.items() if v[1] >= 25}   # keys with too few observations are not judged
    # monotone in quality index
    groups = {}
    for k in env:
        m = re.match(r"snr\|(\w+)\|b(\d)\|q(\d)\|c(\d)$", k)
        if m:
            groups.setdefault((m.group(1), m.group(2), m.group(4)), []).append(int(m.group(3)))
    for (sg, b, c), qs in groups.items():
        qs.sort()
        for i in range(len(qs) - 2, -1, -1):   # lower quality bound must not exceed the next higher one
            lo, hi = "snr|%s|b%s|q%d|c%s" % (sg, b, qs[i], c), "snr|%s|b%s|q%d|c%s" % (sg, b, qs[i + 1], c)
            if env[lo] > env[hi]:
                env[lo] = env[hi]
    out = os.path.join(build.VERIF, "data", "c06_envelope.txt")
    with open(out, "w") as f:
        for k in sorted(env):
            f.write("%s %.2f\n" % (k, env[k]))
    print("wrote", out, len(env), "keys of", len(mins), "; observations per kept key min", min(v[1] for k, v in mins.items() if k in env))
    for k in sorted(extra):
        print("  ", k, extra[k])

if __name__ == "__main__":
    main(sys.argv[1:])
