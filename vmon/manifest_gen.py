"""Regenerates MANIFEST.json from the table below (run: python3 -m vmon.manifest_gen)."""
import json, os
from . import props

VERIF = os.path.dirname(os.path.dirname(os.path.abspath(__file__)))

META = props.META

def main():
    ids = ["C%02d" % i for i in range(1, 21)]
    checks, na = [], []
    for pid in ids:
        m = META.get(pid)
        if not m or pid not in props.CHECKS:
            na.append({"property_id": pid, "reason": (m or {}).get("na_reason", "check not built yet (work in progress); nothing is claimed")})
            continue
        checks.append({
            "property_id": pid,
            "quick_cmd": "./check %s --tier quick" % pid,
            "thorough_cmd": "./check %s --tier thorough" % pid,
            "evidence_file": "evidence/%s.json" % pid,
            "replay_cmd_template": "./check replay {path}",
            "engine": m.get("engine", "vmon"),
            "level_claimed": {"category": props.LEVEL.get(pid, "exploration"), "text": m["level_text"],
                              "design_ref": "DESIGN.md section 6, " + pid},
            "level_note": m["level_note"],
            "technique": m["technique"],
        })
    man = {
        "version": 1,
        "setup_cmd": "./setup.sh",
        "hooks": {
            "guard": "XIPH_VORBIS_VERIF",
            "enable": "checks compile /repo/lib/*.c directly with -DXIPH_VORBIS_VERIF (vmon/build.py); no source hooks are needed, "
                      "every oracle observes the public API",
            "baseline_off_cmd": "cmake --build /repo/_build && ctest --test-dir /repo/_build -j8 --timeout 900",
            "source_commits": [],
            "add_only": True,
        },
        "engines": [
            {"name": "vmon", "path": "vmon/", "serves_properties": [c["property_id"] for c in checks],
             "kind_free_text": "python orchestrator: rebuilds /repo/lib under gcc ASan+UBSan-subset / TSan / accounting allocator, "
                               "runs C monitor drivers (harness/) over seeded workloads in parallel, attributes crashes to cases, "
                               "matches violation keys against known_findings.json, writes evidence"},
        ],
        "checks": checks,
        "not_applicable": na,
        "notes": "Runtime monitoring and sanitizers only. Exit 0 held / 1 violation / 2 inconclusive or harness failure. "
                 "VERIF_SEED selects the PRNG stream; every case replays from (seed, case id).",
    }
    with open(os.path.join(VERIF, "MANIFEST.json"), "w") as f:
        json.dump(man, f, indent=1)
    print("wrote MANIFEST.json: %d checks, %d not applicable" % (len(checks), len(na)))

if __name__ == "__main__":
    main()
