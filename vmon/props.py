"""Per-property check definitions.  Each function drives real executions of /repo's
current working tree and lets monitors judge them; see DESIGN.md section 6."""
import os, sys, time
from . import build, run

TRUST_COMMON = [
    "system libogg 1.3.5 (uninstrumented, static) is correct",
    "the harness's own generators/oracles (/verif/harness) are part of the trusted base",
    "only executions produced by the seeded workloads are judged; nothing is claimed about others",
]


def _n(tier, q, t):
    return t if tier == "thorough" else q


def C07(ctx):
    ctx.rule = ("case = one random chained physical stream made by the real encoder (1-8 links, random channels/rates/"
                "qualities/lengths incl. 0-sample links, 4 paging policies) + a random script of 200/400 vorbisfile ops; "
                "evaluation = one judged seek, read or tell; bucket = (seek API, target class, previous-op class, "
                "single|chain) counted only if the seek succeeded and >=1 sample run was compared bit-exactly with the linear decode")
    ctx.assumptions = TRUST_COMMON + ["reference = linear ov_read_float decode on a fresh handle over the same bytes, itself "
                                      "checked for contiguity (tell == running count, bitstream index monotone, per-link length == samples encoded)"]
    ctx.run("san", "vfseek", "c07", _n(ctx.tier, 160, 4000))
    return ctx.finish(min_evals=2000, min_buckets=40)


def C08(ctx):
    ctx.rule = ("case%3==0: exhaustive - every p in [0,L] of a short chain through ov_pcm_seek (tell==p) and every 5th through "
                "ov_pcm_seek_page (last page boundary strictly before p <= tell <= p, boundaries from the harness's own page scan); "
                "otherwise a seek-heavy random script over all five seek APIs with in-range, boundary(+-1) and out-of-range targets "
                "from varied prior states; bucket = (API, target class, previous-op class, single|chain) with a successful judged landing, "
                "or an out-of-range rejection whose position and next read were verified undisturbed")
    ctx.assumptions = TRUST_COMMON + ["t == duration exactly is judged for safety only (statement leaves it open)",
                                      "time seeks: |tell - (link start + floor((t - t_start)*rate))| <= 1"]
    ctx.run("san", "vfseek", "c08", _n(ctx.tier, 150, 3000), gate=("C08",))
    return ctx.finish(min_evals=5000, min_buckets=40)


CHECKS = {"C07": C07, "C08": C08}

_SAN = ("sanitizer findings (ASan, UBSan bounds/null/div-by-zero/pointer-overflow subset, LeakSanitizer), fatal signals and "
        "CPU-budget overruns in the same runs also fail the check")
META = {
    "C07": {"technique": "runtime monitor: random seek/read histories vs bit-exact linear reference decode, under ASan+UBSan",
            "level_text": "Held on the executions observed: thousands of random vorbisfile call histories on encoder-made chained "
                          "streams, every successful seek followed by reads compared bit-for-bit with an uninterrupted decode; " + _SAN,
            "level_note": "Trusted: libogg, the harness, the linear decode as reference (itself checked for contiguity and against the "
                          "number of samples encoded). Streams are encoder-made (block sizes 256..4096); no claim for unexplored histories."},
    "C08": {"technique": "runtime monitor: exhaustive and random seek targets judged against the harness's own page scan, under ASan+UBSan",
            "level_text": "Held on the executions observed: every sample position of short chains through ov_pcm_seek/ov_pcm_seek_page, plus "
                          "random in-range, boundary and out-of-range targets for all five seek calls from varied prior states; " + _SAN,
            "level_note": "Trusted: libogg, harness page scanner and time arithmetic. t==duration is judged for safety only."},
}
LEVEL = {"C12": "fault_enumeration"}


def main(argv):
    if not argv:
        print(__doc__)
        return 2
    if argv[0] == "replay":
        return run.replay(argv[1])
    prop = argv[0]
    tier = os.environ.get("VERIF_TIER") or "quick"
    if "--tier" in argv:
        tier = argv[argv.index("--tier") + 1]
    if tier not in ("quick", "thorough"):
        tier = "quick"
    try:
        seed = int(os.environ.get("VERIF_SEED", "1"))
    except ValueError:
        seed = 1
    if prop not in CHECKS:
        print("unknown property " + prop, file=sys.stderr)
        return 2
    ctx = run.Ctx(prop, tier, seed, LEVEL.get(prop, "exploration"))
    try:
        return CHECKS[prop](ctx)
    except build.BuildError as e:
        print("HARNESS-ERROR: build failed\n" + str(e)[-3000:], file=sys.stderr)
        return 2
