"""Per-property check definitions.  Each function drives real executions of /repo's
current working tree and lets monitors judge them; see DESIGN.md section 6."""
import os, sys, time
from . import build, run

SPEC = ["spec.c", "mixed.c"]      # the independent Vorbis I model, linked into drivers that use model-made streams

TRUST_COMMON = [
    "system libogg 1.3.5 (uninstrumented, static) is correct",
    "the harness's own generators/oracles (/verif/harness) are part of the trusted base",
    "only executions produced by the seeded workloads are judged; nothing is claimed about others",
]


def _n(tier, q, t):
    return t if tier == "thorough" else q


def C07(ctx):
    ctx.rule = ("case = one random chained physical stream made by the real encoder (1-8 links, random channels/rates/"
                "qualities/lengths incl. 0-sample links, 4 paging policies) + a random script of 200/400 vorbisfile ops; "
                "evaluation = one judged seek, read or tell; bucket = (seek API, target class, previous-op class, "
                "single|chain) counted only if the seek succeeded and >=1 sample run was compared bit-exactly with the linear decode")
    ctx.assumptions = TRUST_COMMON + ["reference = linear ov_read_float decode on a fresh handle over the same bytes, itself "
                                      "checked for contiguity (tell == running count, bitstream index monotone, per-link length == samples encoded)"]
    ctx.run("san", "vfseek", "c07", _n(ctx.tier, 2000, 6000), extra_src=SPEC)
    # begin-trimmed links (every granule position lowered by t, as a stream cutter leaves them): expected audio = the packet-level decode of the untrimmed packets from sample t on
    ctx.rule += (" | mode c07b: chains of 1-3 links, one of them begin-trimmed by 1..4000 samples (less than its first audio page): totals, linear read (position == samples delivered, "
                 "per-link count == length, audio == untrimmed decode from sample t), 25 (60) sample seeks each followed by 400 compared samples; keys carry the prefix begin-trimmed-link:")
    ctx.run("san", "vfseek", "c07b", _n(ctx.tier, 400, 2400), extra_src=SPEC)
    return ctx.finish(min_evals=2000, min_buckets=40)


def C08(ctx):
    ctx.rule = ("case%3==0: exhaustive - every p in [0,L] of a short chain through ov_pcm_seek (tell==p) and every 5th through "
                "ov_pcm_seek_page (last page boundary strictly before p <= tell <= p, boundaries from the harness's own page scan); "
                "otherwise a seek-heavy random script over all five seek APIs with in-range, boundary(+-1) and out-of-range targets "
                "from varied prior states; bucket = (API, target class, previous-op class, single|chain) with a successful judged landing, "
                "or an out-of-range rejection whose position and next read were verified undisturbed")
    ctx.assumptions = TRUST_COMMON + ["t == duration exactly is judged for safety only (statement leaves it open)",
                                      "time seeks: |tell - (link start + floor((t - t_start)*rate))| <= 1"]
    ctx.run("san", "vfseek", "c08", _n(ctx.tier, 900, 4500), gate=("C08",), extra_src=SPEC)
    return ctx.finish(min_evals=5000, min_buckets=40)


def C09(ctx):
    ctx.rule = ("case = one chain of k links (k 1..8 quick, up to 40 thorough) made by the real encoder with per-link unique comments, "
                "random serial-number schemes (sequential, hashed, INT_MIN/INT_MAX/-1, negative), lengths incl. 0 and single-page links, "
                "4 paging policies; evaluation = one per-link accounting comparison or one audio comparison of a link in the chain vs the "
                "same link's bytes opened alone; bucket = (k, has zero-length link, has tiny link, first link short|long) with every clause held")
    ctx.assumptions = TRUST_COMMON + ["intact chains only (damaged chains belong to C03)"]
    ctx.run("san", "vfmisc", "c09", _n(ctx.tier, 1200, 6000), extra_src=SPEC)
    return ctx.finish(min_evals=1000, min_buckets=12)


def C10(ctx):
    ctx.rule = ("case = one encoder-made chain decoded through (A) seekable vorbisfile with full reads = reference, then vorbisfile "
                "seekable/streaming/seek-callback-fails with 5 (10) random read schedules (1 byte, capped, random, 1-then-full), request "
                "lengths (1, random, huge) and initial-preload sizes, then the packet API (own ogg_sync/ogg_stream loop, feeds of 1..65536 "
                "bytes); evaluation = one full alternative decode compared bit-for-bit; bucket = (path, seek mode, schedule, request policy, "
                "preload, single|chain)")
    ctx.assumptions = TRUST_COMMON
    ctx.run("san", "vfmisc", "c10", _n(ctx.tier, 720, 3000), extra_src=SPEC)
    return ctx.finish(min_evals=800, min_buckets=30)


def C17(ctx):
    ctx.rule = ("case = twin handles on one encoder-made stream (1-8 channels, every 9th case 9-255 channels; signals incl. 10x over-range, "
                "alternating +-1, noise); each step reads the same position as float (twin A) and through ov_read with a random "
                "(word,signed,endian), buffer length class (<frame, frame, frame+1, random, 1 MiB) and alignment, into an exact-size "
                "heap buffer with canaries; evaluation = one ov_read call judged sample by sample against exact scale/round/clip/offset/"
                "byte-order arithmetic; bucket = (word, signed, endian, length class, channel class, misaligned) or a rejected bad request")
    ctx.assumptions = TRUST_COMMON + ["decoded values far outside +-1 come from 10x over-range input only until crafted streams are added (thorough: vgen)",
                                      "ties in rounding accept either neighbour"]
    ctx.run("san", "vfmisc", "c17", _n(ctx.tier, 1200, 3000), extra_src=SPEC)
    return ctx.finish(min_evals=3000, min_buckets=40)


def C19(ctx):
    ctx.rule = ("case = one encoder-made chain (mixed channels/rates/short-block sizes); 60 (120) triples of twin handles brought to the same "
                "state by the same random history (seeks, reads, read-to-end, optional half-rate); A does the plain seek, B the lapped one, C "
                "supplies what would have been read next at the old position; plus ov_crosslap pairs; evaluation = one judged pair; bucket = "
                "(seek API, target class, half-rate, old position mid|end, same|different short block, channel classes) with return class, "
                "tell, bit-identity after min(n_old,n_new) and (when unambiguous) the w^2 cross-fade formula all held")
    ctx.assumptions = TRUST_COMMON + ["content formula asserted only when the old link is unambiguous, old audio is available without leaving its link and "
                                      "the primed buffer holds >= the lap length; bounds, tell and identity after the region always asserted",
                                      "window from the Vorbis I formula, tolerance 4e-6 relative"]
    ctx.run("san", "vfmisc", "c19", _n(ctx.tier, 300, 2500), extra_src=SPEC)
    return ctx.finish(min_evals=2000, min_buckets=40)


def C20(ctx):
    ctx.rule = ("case = one encoder-made chain; half-rate linear decode vs full-rate (per-link ceil(N/2), totals unchanged), then a random script "
                "of 150 (300) ops toggling ov_halfrate at arbitrary points among reads and pcm/page/time/raw seeks, every read compared "
                "bit-for-bit with the half-rate (or full-rate) linear decode at the reported position; then a streaming handle toggled before "
                "the first read; bucket = (count parity/size class) | (toggle direction) | (seek API, hs, target class, single|chain)")
    ctx.assumptions = TRUST_COMMON + ["refusal on 64-sample short blocks: every 8th case chains a model-made link with 64-sample blocks among encoder-made links and requires OV_EINVAL, flag clear, position/total unchanged and decoding identical to a twin that never asked",
                                      "for odd N the position after the last half-rate sample is N+1; not flagged"]
    ctx.run("san", "vfmisc", "c20", _n(ctx.tier, 1200, 4000), extra_src=SPEC)
    # begin-trimmed links (driver vfseek mode c07b): where the trim is applied exactly at full rate, the half-rate decode must deliver ceil(length/2) samples per link
    ctx.rule += " | plus the half-rate count clause on begin-trimmed links (vfseek mode c07b; its position/audio clauses belong to C07 and are not gated here)"
    ctx.run("san", "vfseek", "c07b", _n(ctx.tier, 400, 2400), extra_src=SPEC, gate=("C20",))
    return ctx.finish(min_evals=3000, min_buckets=25)


WRAP16 = ["-Wl,--wrap=toupper,--wrap=tolower,--wrap=strcasecmp,--wrap=strncasecmp,--wrap=__ctype_toupper_loc,--wrap=__ctype_tolower_loc"]
ENV06 = os.path.join(build.VERIF, "data", "c06_envelope.txt")


def C04(ctx):
    ctx.rule = ("case = one encode with the real encoder: N from {0,1,2,3, every power-of-two block size 64..16384 +-1, random up to 60k/250k}, "
                "random partition of the submission (one call, 1-sample calls, 1024s, random 1..8192, huge), eager or lazy blockout, 12 signal kinds, "
                "channels 1-8 (thorough: 16/64/255), 23 rates incl. every template edge, VBR q -0.1..1 or managed (abr/max/min/cbr) via both set-up styles; "
                "evaluation = one of: packet-log ordering check (granules monotone, <= N, last == N with eos, no earlier eos), packet-API decode count == N, "
                "seekable vorbisfile (total == N, tell after open == 0, read count == N), streaming vorbisfile count == N; bucket = (N class, channel class, "
                "rate band, rate-control kind, partition kind, lazy) with every clause held")
    ctx.assumptions = TRUST_COMMON + ["per-call submissions are capped at 131072 samples (larger single calls overflow the stack in _preextrapolate_helper: outside the explored range)"]
    ctx.run("san", "encmon", "c04", _n(ctx.tier, 4500, 20000), extra_ld=WRAP16)
    return ctx.finish(min_evals=1500, min_buckets=100)


def C06(ctx):
    ctx.rule = ("case = one signal (enveloped multi-tones, sweep, white noise, irregular click trains, silence/noise/click bursts; per-channel distinct content) "
                "x (rate, channels) encoded at three increasing qualities (thorough: also managed modes, 3-8 channels) and decoded by the packet API; evaluation = one "
                "encode judged: all samples finite; per channel the cross-correlation with the input over lags -4608..4608 (dense within +-64, step 16 beyond) peaks at "
                "lag 0 (judged when the peak's normalised correlation is >= 0.6); every output channel correlates best with its own input channel; peak <= 6x input peak (largest observed on this tree: 3.4x, white noise at the lowest quality); for multi-tones SNR >= the committed envelope "
                "data/c06_envelope.txt[rate band, quality, channel class] (calibrated on this tree: observed minimum - 6 dB, forced monotone in quality) and SNR of the "
                "same signal does not fall by more than 6 dB when quality rises by two steps; for a noise burst out of digital silence in one channel the output 700-1700 samples before the onset stays 45 dB below the burst (pre-echo confined to the short block); bucket = (signal, channel class, rate band, quality) with every clause held")
    ctx.assumptions = TRUST_COMMON + ["the SNR envelope is an empirical regression bound calibrated on the pinned tree (after the fix: commits), not a psychoacoustic truth",
                                      "channel identity is asserted for q >= 0.1 only (point stereo below that)",
                                      "degradations inside the 6 dB margin, or purely perceptual ones, are invisible to this monitor"]
    ctx.run("san", "encmon", "c06", _n(ctx.tier, 720, 6000), extra=[ENV06], extra_ld=WRAP16)
    if not os.path.exists(ENV06):
        ctx.harness_errors.append("missing " + ENV06)
    return ctx.finish(min_evals=300, min_buckets=60)


def C14(ctx):
    ctx.rule = ("(1) real managed encodes: rates 8-96 kHz, 1-6 channels, limits {max only, min only, both, CBR}, reservoir 0.01-4 s of bits and bias 0..1 through "
                "OV_ECTL_RATEMANAGE2_SET, demand-swinging signals (silence/noise/click bursts, 10x over-range); limits are read from the public vorbis_info "
                "(bitrate_upper/lower), the reservoir from RATEMANAGE2_GET, W of every packet from vorbis_packet_blocksize; (2) direct drive: real blocks from "
                "vorbis_analysis_blockout, the 15 candidate packets overwritten with adversarial size vectors (monotone, reversed, all-equal, all-huge, all-tiny, "
                "random, switching) before vorbis_bitrate_addblock; evaluation = one max-subarray window check over ALL contiguous packet runs of one stream: "
                "sum(bits) - rate_limit*sum(blocksize/2)/rate - 0.5*short_per_long per packet <= reservoir + 8 (and symmetric for min); bucket = (limit kind, reservoir "
                "class, bias class, block mix, signal | pattern)")
    ctx.assumptions = TRUST_COMMON + ["duration of a packet = blocksize/2 samples (the manager's own accounting); true durations differ only at the two edge blocks of a run and a violation "
                                      "inside that edge allowance is keyed separately", "slack 0.5*short_per_long bits per packet for the manager's rint() of its per-block target, +8 bits",
                                      "direct drive includes lib/codec_internal.h to reach vorbis_block_internal.packetblob[]"]
    ctx.run("san", "encmon", "c14", _n(ctx.tier, 500, 4000), extra_ld=WRAP16)
    ctx.run("san", "encmon", "c14d", _n(ctx.tier, 1200, 20000), extra_ld=WRAP16)
    return ctx.finish(min_evals=400, min_buckets=60)


def C15(ctx):
    ctx.rule = ("case = one set-up attempt: entry point (setup_vbr, setup_managed, init, init_vbr) x channels (-1..300, every value visited round-robin) x rate "
                "(common rates, every template edge +-2, -1/0/1/2^31-1/..., log-dense 4k-200k) x quality (-0.2..1.2 step .05, NaN, +-Inf, +-1e9) or bitrate triple "
                "(consistent, inconsistent, zero, wild) + a script of 0-11 vorbis_encode_ctl requests over all 12 request codes and unknown codes with plausible and "
                "wild struct contents (NaN, negative, huge, NULL where documented) before and after setup_init; on success analysis_init, headerout, header decode, "
                "encode 0/1/700/5000 samples, clear twice; evaluation = one set-up/init call judged (return in {0,OV_EINVAL,OV_EIMPL,OV_EFAULT}; failed one-step call "
                "leaves an all-zero vorbis_info; success reports requested channels/rate); bucket = (outcome, entry point, channel class, rate class)")
    ctx.assumptions = TRUST_COMMON + ["vorbis_encode_ctl is not called on an info the library has already cleared (outside the documented typestate)"]
    ctx.run("san", "encmon", "c15", _n(ctx.tier, 12000, 200000), extra_ld=WRAP16)
    return ctx.finish(min_evals=5000, min_buckets=40)


def C16(ctx):
    ctx.rule = ("case = one comment list (0..1500/5000 entries; entries: tagged values, empty strings, arbitrary bytes 1-255, embedded NULs with explicit lengths, NULL entries, "
                "values up to 80k/300k bytes; tags with mixed case, prefixes of one another, empty tag, non-ASCII letters) written by vorbis_analysis_headerout and by "
                "vorbis_commentheader_out (must agree byte for byte), parsed independently by the harness, read back by vorbis_synthesis_headerin; then 50/80 queries x "
                "5 indices against a 10-line ASCII-only model; libc case mapping is replaced (link-time --wrap) by Turkish/Latin-1 style tables that also count calls; "
                "evaluation = one comparison (packet parse, read-back, query_count, query); bucket = (count class, explicit|cstr, null entries, writer, size class)")
    ctx.assumptions = TRUST_COMMON + ["queries are issued on the read-back structure, and on the source structure only when it has no NULL entries"]
    ctx.run("san", "encmon", "c16", _n(ctx.tier, 6000, 60000), extra_ld=WRAP16)
    return ctx.finish(min_evals=20000, min_buckets=20)




def C01(ctx):
    ctx.rule = ("case = one random LEGAL set-up drawn by the independent Vorbis I model (harness/spec.c, written from doc/*.tex) in one of 10 feature strata "
                "(floor 1; floor 0; 3-255 channels with chained coupling and up to 16 submaps; block-size extremes incl. 64/64, 64/8192, 8192/8192; books up to 2^14 "
                "(thorough 2^18) entries, ordered/sparse/single-entry, dims 1-32; up to 64 modes / 8 mappings; cascade-heavy residues with up to 64 classes; "
                "lookup 1 and 2 with sequence_p; residue 0/1/2 with begin/end beyond the vector and partition sizes not aligned to anything) + 6-16 (6-40) audio "
                "packets written by the model's syntax-level random encoder, all window transitions, optional end trim; the model re-parses its own headers with its "
                "strict parser; evaluation = one packet: libvorbis must accept it, consume exactly the bits the model consumes, deliver exactly the specified number "
                "of samples, each within 1e-4 (floor 0: 2e-2) x the block's error scale of the float64 reference decode; blocks the specification does not determine "
                "up to single-precision rounding (near-singular floor-0 LSP, exp overflow, coupling operands that cancel to ~0, non-finite) are counted, not judged; "
                "the same stream muxed and read through vorbisfile must report and deliver exactly the specified total; bucket = (stratum, block-size pair, channel class, floor types, residue types, end trim) with >=1 block judged")
    ctx.assumptions = TRUST_COMMON + ["the model (spec.c) is the largest trusted component; its writer, parser and decoder were written from the specification text only",
                                      "classbook codes >= classifications^dim are never written (the specification wraps them, libvorbis treats them as end of packet)",
                                      "IMDCT scale and the single-entry-codebook convention follow libvorbis where the specification defers to it",
                                      "floor-0 amplitude bits <= 16; begin-trimming by a short first page is a vorbisfile matter (C07-C09), end trimming is judged here"]
    ctx.run("san", "specmon", "c01", _n(ctx.tier, 3200, 40000), extra_src=SPEC, stack_mb=256)
    return ctx.finish(min_evals=8000, min_buckets=150)


def C05(ctx):
    ctx.rule = ("case = one real encode (17 rates incl. template edges, 1-8 (thorough: up to 255) channels, VBR q -0.1..1 / managed abr, hard max, hard min, CBR with reservoir "
                "and bias variations / one-step entry points, coupling off, lowpass 2 kHz..Nyquist, impulse bias, 13 signal kinds incl. silence, DC, denormals, 10x over-range, "
                "alternating +-1); evaluation = one packet or header set: headers accepted by libvorbis AND by the model's strict parser and equal to the encoder's "
                "vorbis_info (channels, rate, block sizes, three bitrate fields); every audio packet returns 0 from vorbis_synthesis; unmanaged: consumed bits in "
                "(8*bytes-8, 8*bytes]; managed without hard max: never runs out of bits; the model parses the packet to the same bit position and the same block size; long-block "
                "window flags equal the neighbours' block sizes; every third unmanaged encode is repeated through the direct packet interface vorbis_analysis(vb,&op) and must yield byte-identical packets; bucket = (rate-control kind, channel class, rate band, signal, coupling off, lowpass set)")
    ctx.assumptions = TRUST_COMMON + ["thorough tier model-parses one packet in four (all are checked by libvorbis)", "NaN/Inf input samples are outside the statement"]
    ctx.run("san", "specmon", "c05", _n(ctx.tier, 1600, 8000), extra_src=SPEC, stack_mb=256)
    return ctx.finish(min_evals=12000, min_buckets=100)


def C02(ctx):
    ctx.rule = ("case = a source stream (3 of 4: real encoder; 1 of 4: model-made with features the encoder never emits) whose headers are mutated (bit flips, byte sets, truncation, "
                "extension, splices, zero/ff runs, random bytes, targeted flips in the first 120 body bytes, swapped order) and whose audio packets are valid / truncated / "
                "noisy / foreign, then 2-3 random call histories of 20-200 calls over the packet-decode typestate (headerin with any packet, idheader, packet_blocksize, "
                "halfrate (before set-up and under a live decoder), synthesis_init incl. repeated after failure, synthesis / trackonly with wild b_o_s/e_o_s/granulepos/packetno, blockin, pcmout, read(any n), lapout, "
                "restart, clears in any state, repeated clears, re-init); plus (mode c02f) model set-ups with 1-2 header fields forced to boundary values (64 field sites x "
                "{0,1,max,max-1,count,count+-1,sign bit,random}; codebook entries up to 2^24-1, dim 0/1/65535) re-packed bit-exactly; plus (mode c02q) lattice codebooks whose entry count is at or next to a perfect power, asked of the library's size routine for every such (dim, entries) and packed into setup headers; evaluation = one library call with its "
                "return value checked against the documented codes; ASan/UBSan/LSan, the CPU budget and a 64 MiB stack judge the sanitized runs; the same workloads are repeated on the uninstrumented build under the default 8 MiB stack; bucket = "
                "(source, mutated header, mutation kind, audio mode) | field class")
    ctx.assumptions = TRUST_COMMON + ["blockin is called only directly after a successful synthesis/trackonly on that block; lapout only in the "
                                      "states vorbisfile calls it in (a real block since restart) - other orders are outside the documented protocol",
                                      "allocation failure is not injected (the library checks no malloc result and no property asks it to)"]
    ctx.run("san", "pktmon", "c02", _n(ctx.tier, 6400, 120000), extra_src=SPEC, stack_mb=64)
    ctx.run("san", "pktmon", "c02f", _n(ctx.tier, 6400, 120000), extra_src=SPEC, stack_mb=64)
    # lattice size law (round 8): the library's value count for every (dim, k^dim-2..k^dim+2) below 2^24 against the model's integer answer, and such books inside
    # real setup headers; a correction loop that does not terminate is a CPU-budget overrun of that case
    ctx.run("san", "pktmon", "c02q", _n(ctx.tier, 104, 520), extra_src=SPEC, stack_mb=64, env_extra={"VH_CPU": "20"})
    # "within the default thread stack": the same workloads on the uninstrumented build under an 8 MiB stack (ASan inflates frames, so the
    # sanitized runs get 64 MiB); a crash here is a stack (or other) fault the sanitized run could not attribute to the stack limit
    ctx.run("plain", "pktmon", "c02f", _n(ctx.tier, 3200, 60000), extra_src=SPEC, stack_mb=8)
    ctx.run("plain", "pktmon", "c02", _n(ctx.tier, 1600, 30000), extra_src=SPEC, stack_mb=8)
    if ctx.tier == "thorough":
        # coverage-guided stratum (harness/fuzzmon.c): libFuzzer mutates packets (headers, codebooks, audio) and the call script; bounded by unit count
        ctx.rule += " | thorough only: libFuzzer (clang ASan+UBSan) over length-prefixed packet lists, packet-level target, 16 independent jobs x 40000 units from a generated seed corpus"
        ctx.fuzz("pkt", jobs=16, runs=40000)
    return ctx.finish(min_evals=200000, min_buckets=100)


def C11(ctx):
    ctx.rule = ("case = one stream (4 of 5 real encodes with many block-size transitions, 1 of 5 model-made) decoded clean and then with one disturbance at packet k: drop, duplicate, "
                "truncate (5 lengths), 1-8 bit flips, random bytes, header packet as audio, restart before k, fresh decoder started at k, track-only, zero-length; under both "
                "granule conventions (per packet, as the encoder emits; per page: -1 except every P-th packet and the last); evaluation = one (stream, k, disturbance): every "
                "packet j >= k+2 must yield the same number of samples with the same bits (FNV hash over all channels) as in the clean decode; quick samples 24 k per stream "
                "(always including the tail), thorough every k; bucket = (disturbance, head|mid|tail, convention, source)")
    ctx.assumptions = TRUST_COMMON + ["a disturbance may legitimately change packets k and k+1; equality is demanded from k+2 on"]
    ctx.run("san", "pktmon", "c11", _n(ctx.tier, 2000, 12000), extra_src=SPEC)
    return ctx.finish(min_evals=20000, min_buckets=60)


def C13(ctx):
    ctx.rule = ("case = one scenario ending in every documented clear function called twice: encoder (every template class: 1/2/6/other channels x 9 rates x VBR/managed, coupling "
                "off, lowpass; stopped after set-up refusal, setup only, setup_init refusal/only, analysis_init, block_init, headerout, 0-300 samples, full encode, abandoned "
                "mid-stream); decoder (0-3 headers, one header corrupted by 9 mutation kinds, init refusals, some packets decoded; real and model-made headers); vorbisfile "
                "(intact/truncated/bit-flipped/garbage/zeroed/header-cut chains, seekable/streaming/seek-fails, ov_open_callbacks / ov_test+ov_test_open / ov_test only, callback "
                "faults, 0-25 seeks/reads/half-rate toggles/lapped seeks); evaluation = one scenario: the sanitizer allocator's live byte count must return to its value before "
                "the scenario (LeakSanitizer at exit names the allocation), no double free (ASan), close callback count == (1 if open succeeded else 0) and only inside "
                "ov_clear; bucket = scenario class")
    ctx.assumptions = TRUST_COMMON + ["live-byte ledger = __sanitizer_get_current_allocated_bytes() of the ASan runtime (libogg is linked statically, so its allocations are counted too)"]
    ctx.run("san", "pktmon", "c13", _n(ctx.tier, 9000, 90000), extra_src=SPEC)
    # "opens that fail and seeks that fail" by enumeration (round 8): the callback-fault plans of the C12 driver - a fault at every read/seek/tell invocation index of an
    # open or of a seek scenario, on streams whose links carry their headers on two, three or many pages - run here under LeakSanitizer; what gates here is the allocation
    # ledger (leak, double free, close count), the recovery and error-surfacing clauses stay with C12
    ctx.run("san", "vffault", "c12", _n(ctx.tier, 544, 6800), extra_src=SPEC, env_extra={"VH_CPU": "120"}, gate=("C13",))
    if ctx.tier == "thorough":
        ctx.rule += " | thorough only: libFuzzer with LeakSanitizer after every unit over both targets of harness/fuzzmon.c (only leak reports gate here; other reports belong to C02/C03)"
        ctx.fuzz("both", jobs=16, runs=25000, leaks=True, only_leaks=True)
    ctx.rule += " | plus the C12 driver's fault plans (a one-shot or persistent read error / empty read / one-byte read / refused seek / refused tell at every callback invocation index of an open or a seek scenario; header pages 2, 3 or many per link) under LeakSanitizer: only the ledger gates here"
    return ctx.finish(min_evals=3000, min_buckets=100)


def C03(ctx):
    ctx.rule = ("case = one physical stream of 1-6 links (encoder-made and model-made: 64..8192-sample blocks, floor 0, 1-255 channels) damaged by one of 18 page-level operators "
                "(case id mod 18: intact, garbage between pages, duplicated/dropped/swapped pages, foreign multiplexed stream with or without BOS, repeated serial numbers, EOS "
                "cleared, lying or -1 granule positions, truncation, byte noise with stale or re-fixed CRC, pure random bytes, BOS mid-stream, page-number jump, zeroed span, "
                "cut inside the headers) and in 25% of cases a second one; opened seekable / streaming / seek-callback-fails, via ov_open_callbacks / ov_test+ov_test_open / ov_test "
                "only, with short-read schedules and initial preload; then a script of 30-120 (300) calls over ALL public vorbisfile functions with in-range, boundary and absurd "
                "arguments (negative/huge positions and lengths, NaN/Inf times, link -5..links+5, word sizes -1..4, NULL out-pointers where optional, ov_crosslap with a second "
                "handle and with itself); evaluation = one call: return value in the documented set (or data), returned pointers readable, close callback never run behind the "
                "caller's back; failed opens: close count 0 and an all-zero handle; ASan/UBSan/LSan and a per-case CPU budget judge memory safety and termination; bucket = "
                "(open outcome, damage, open mode)")
    ctx.assumptions = TRUST_COMMON + ["after a failed open only ov_clear is called; after ov_test without ov_test_open only the queries the documentation allows",
                                      "termination = per-case CPU-time budget (ITIMER_PROF), not wall clock"]
    ctx.run("san", "vffault", "c03", _n(ctx.tier, 11520, 120000), extra_src=SPEC, stack_mb=64, env_extra={"VH_CPU": "90"})
    # the same cases on the uninstrumented build under the default 8 MiB stack (lapping buffers and residue scratch live on the stack)
    ctx.run("plain", "vffault", "c03", _n(ctx.tier, 2880, 40000), extra_src=SPEC, stack_mb=8, env_extra={"VH_CPU": "60"})
    if ctx.tier == "thorough":
        ctx.rule += (" | thorough only: libFuzzer (clang ASan+UBSan) over length-prefixed packet lists that the harness frames into checksummed pages (1-2 links, 4 paging policies, "
                     "seekable or not) followed by a mutated script of reads, seeks of every kind, lapped seeks, half-rate toggles and queries; 16 jobs x 30000 units")
        ctx.fuzz("vf", jobs=16, runs=30000)
    return ctx.finish(min_evals=100000, min_buckets=200)


def C12(ctx):
    ctx.rule = ("case = (stream kind: single link | 3-link chain | small pages | hand-built pages where some pages hold nothing but the tail of a packet begun on the previous page) x (scenario: open, open+read-all, pcm_seek, pcm_seek_page, time_seek, time_seek_page, raw_seek, "
                "pcm_seek_lap, time_seek_page_lap, raw_seek_lap, halfrate toggle, crosslap, seek+reads, ov_test+ov_test_open, 16-bit reads interleaved with seeks, time_seek_lap, pcm_seek_page_lap): the scenario is first run fault-free to count its read/seek/tell callback "
                "invocations K; then for EVERY invocation index k < K (stratified to 300 per kind in quick when K is larger; all up to 4000 in thorough) x 5 fault kinds (read "
                "error with errno, premature zero read, one-byte read, seek -1, tell -1) x {one-shot, persistent} it is re-run on a fresh handle with the fault planted at k; "
                "evaluation = one faulted run judged: every return in the documented set; close callback not run before ov_clear and exactly once overall; a read error / "
                "seek -1 / tell -1 that fired during open or during a seek call must not end in plain success (reads may end in EOF; seek invocation 0 is the seekability probe); "
                "if the open succeeded fault-free and the fault fired later: after the fault is cleared ov_pcm_seek to 3 positions succeeds, tells the target and the following "
                "1500 samples are bit-identical to the never-faulted reference; sanitizers and the CPU budget (hang) judge the rest; bucket = (scenario, fault kind, stream kind)")
    ctx.assumptions = TRUST_COMMON + ["faults are injected by the application-side callbacks; short, one-byte and premature-zero reads may legitimately end in success or EOF",
                                      "a handle opened while a short read hid part of the file is judged for safety and termination only (the statement promises recovery for failures after a successful open)"]
    ctx.run("san", "vffault", "c12", _n(ctx.tier, 1088, 13600), extra_src=SPEC, env_extra={"VH_CPU": "120"})
    return ctx.finish(min_evals=15000, min_buckets=120)


NPIPE18 = 16   # pipeline kinds in harness/thrmon.c


def C18(ctx):
    ctx.rule = ("16 pipeline kinds (6 encoder configurations incl. managed, managed with digitally silent channels, and 5.1, encodes of streams shorter than one block, packet decode, vorbisfile linear / seek script / lapped seeks / half-rate / streaming on SHARED "
                "read-only input bytes, model-made stream decode, header+comment operations, encode-mux-decode); (1) TSan build: rounds of 16 threads released by a barrier, each "
                "running a pipeline whose solitary output hash was computed beforehand; any ThreadSanitizer report or any hash differing from the solitary run fails; (2) the same "
                "under ASan; (3) repeatability: every pipeline is run in separate processes under three allocator fill regimes (malloc/free fill 0x00, 0xA5, 0xFF through the "
                "sanitizer allocator, quarantine on) combined with three stack pre-dirtying patterns, and twice inside one process; all output hashes must be equal; (4) valgrind "
                "memcheck (uninstrumented build) on the pipelines: any use of an uninitialised value or invalid access inside the library fails; (5) rounding mode and MXCSR "
                "control bits unchanged across each pipeline; evaluation = one pipeline execution compared; bucket = (pipeline kind, regime)")
    ctx.assumptions = TRUST_COMMON + ["TSan sees libvorbis (instrumented) but not libogg; schedule diversity is what 16 threads on 16 cores produce - a race needs both accesses executed, not a particular interleaving, to be reported",
                                      "valgrind runs a reduced number of cases (about 20-50x slower)"]
    quick = ctx.tier != "thorough"
    ctx.run("tsan", "thrmon", "c18t", 10 if quick else 300, batch=1 if quick else 4, extra_src=SPEC, workers=2 if quick else 4, timeout=1800)
    ctx.run("san", "thrmon", "c18t", 4 if quick else 60, batch=1, extra_src=SPEC, workers=2 if quick else 4, timeout=1800)
    base = run.SAN_ENV["ASAN_OPTIONS"]
    regimes = [("fill00", "malloc_fill_byte=0:free_fill_byte=0", "0x00"), ("fillA5", "malloc_fill_byte=165:free_fill_byte=90", "0xA5"), ("fillFF", "malloc_fill_byte=255:free_fill_byte=255", "0x7F")]
    ncase = NPIPE18 * (3 if quick else 40)
    hashes = {}
    for name, opt, stack in regimes:
        recs = ctx.run("san", "thrmon", "c18h", ncase, extra_src=SPEC,
                       env_extra={"ASAN_OPTIONS": base + ":max_malloc_fill_size=1073741824:max_free_fill_size=1073741824:" + opt, "VH_STACK_POISON": stack})
        for r in recs:
            hashes.setdefault(r["case"], {})[name] = r.get("sample", "").split("hash=")[-1]
    ncmp = 0
    for cid, hs in sorted(hashes.items()):
        if len(hs) == len(regimes):
            ncmp += 1
            if len(set(hs.values())) != 1:
                ctx.viols.append({"prop": "C18", "key": "output-depends-on-memory-contents:pipeline-%d" % (cid % NPIPE18),
                                  "detail": "case %d: hashes per fill regime %s" % (cid, hs),
                                  "replay": {"flavour": "san", "driver": "thrmon", "mode": "c18h", "seed": ctx.seed, "tier": ctx.tier, "case": cid, "extra": [], "env": {}}})
            else:
                ctx.buckets.add("c18h|fill-regimes-agree|pipeline-%d" % (cid % NPIPE18))
    ctx.evals += ncmp
    ctx.add_count("fill_regime_comparisons", ncmp)
    vg = ["valgrind", "-q", "--error-exitcode=88", "--undef-value-errors=yes", "--track-origins=no", "--leak-check=no", "--max-stackframe=8388608"]
    ctx.run("plain", "thrmon", "c18h", NPIPE18 if quick else 10 * NPIPE18, batch=1, extra_src=SPEC, wrapper=vg, timeout=3000,
            env_extra={"VH_CPU": "2000"})
    return ctx.finish(min_evals=100, min_buckets=40)


CHECKS = {"C18": C18, "C03": C03, "C12": C12, "C01": C01, "C02": C02, "C05": C05, "C11": C11, "C13": C13, "C04": C04, "C06": C06, "C14": C14, "C15": C15, "C16": C16, "C07": C07, "C08": C08, "C09": C09, "C10": C10, "C17": C17, "C19": C19, "C20": C20}

_SAN = ("sanitizer findings (ASan, UBSan bounds/null/div-by-zero/pointer-overflow subset, LeakSanitizer), fatal signals and "
        "CPU-budget overruns in the same runs also fail the check")
META = {
    "C07": {"technique": "runtime monitor: random seek/read histories vs bit-exact linear reference decode, under ASan+UBSan",
            "level_text": "Held on the executions observed: thousands of random vorbisfile call histories on encoder-made chained "
                          "streams, every successful seek followed by reads compared bit-for-bit with an uninterrupted decode; " + _SAN,
            "level_note": "Trusted: libogg, the harness, the linear decode as reference (itself checked for contiguity and against the "
                          "number of samples encoded). Streams are encoder-made (block sizes 256..4096); no claim for unexplored histories."},
    "C08": {"technique": "runtime monitor: exhaustive and random seek targets judged against the harness's own page scan, under ASan+UBSan",
            "level_text": "Held on the executions observed: every sample position of short chains through ov_pcm_seek/ov_pcm_seek_page, plus "
                          "random in-range, boundary and out-of-range targets for all five seek calls from varied prior states; " + _SAN,
            "level_note": "Trusted: libogg, harness page scanner and time arithmetic. t==duration is judged for safety only."},
}
META.update({
    "C09": {"technique": "runtime monitor: chain accounting and per-link differential (link in chain vs link alone), under ASan+UBSan",
            "level_text": "Held on the executions observed: hundreds to thousands of encoder-made chains (1-40 links) opened seekable; link count, "
                          "per-link channels/rate/serial/comments/length, totals, and bit-identity of each link's audio with the same bytes decoded alone; " + _SAN,
            "level_note": "Trusted: libogg, harness muxer; intact chains only; lengths are also compared with the number of samples given to the encoder."},
    "C10": {"technique": "runtime monitor: three-way bit-exact differential across access paths and read schedules, under ASan+UBSan",
            "level_text": "Held on the executions observed: each stream decoded through seekable vorbisfile, streaming vorbisfile and the packet API under "
                          "random short-read schedules (down to 1 byte), request lengths and preloads; outputs memcmp-equal, no hole/error returns; " + _SAN,
            "level_note": "Trusted: libogg, harness callback source. Reference path is seekable vorbisfile with full reads."},
    "C17": {"technique": "runtime monitor: twin handles, exact-arithmetic model of scale/round/clip/offset/endianness, canaried exact-size buffers under ASan",
            "level_text": "Held on the executions observed: every ov_read call judged sample-by-sample against the float twin for all 8 formats, buffer-length "
                          "classes incl. too small, misaligned buffers, 1-255 channels; bad requests must error without writing or moving; " + _SAN,
            "level_note": "Trusted: harness arithmetic (ties accept either neighbour). Values far outside +-1 come from 10x over-range input (clipping exercised and counted)."},
    "C19": {"technique": "runtime monitor: triple-twin differential (plain seek vs lapped seek vs old-position continuation) with window model, under ASan+UBSan",
            "level_text": "Held on the executions observed: for each lapped seek variant and ov_crosslap, same return class and tell as the plain seek, "
                          "bit-identity after the lap region, cross-fade formula inside it where the old link is unambiguous; " + _SAN,
            "level_note": "Trusted: harness window formula (Vorbis I power-cosine), tolerance 4e-6 relative; see rule for when the content clause is asserted."},
    "C20": {"technique": "runtime monitor: cursor into half-rate/full-rate linear reference decodes across random toggle/seek/read scripts, under ASan+UBSan",
            "level_text": "Held on the executions observed: ceil(N/2) per link, totals unchanged, +2 per sample, seek landing on the half-rate grid at or below the "
                          "target, audio bit-identical to the linear half-rate (or, after switching off, full-rate) decode at every read; " + _SAN,
            "level_note": "Trusted: harness cursor logic. 'Even position' is read relative to the containing link's start (the only reading under which audio at that "
                          "position exists when a link starts on an odd sample); refusal on 64-sample blocks awaits crafted streams."},
})
META.update({
    "C04": {"technique": "runtime monitor: conservation/ordering checker over the encoder's packet log joined with packet-API and vorbisfile decode counts, under ASan+UBSan",
            "level_text": "Held on the executions observed: thousands of encodes over N (0,1,2,3, block-size multiples +-1, random), submission partitions, signals, channels, "
                          "every rate band and its edges, VBR and managed modes; granule positions monotone, last packet == N with eos, decoded counts == N through three decode paths, "
                          "ov_pcm_total == N, tell after open == 0; " + _SAN,
            "level_note": "Trusted: libogg, harness muxer and counters. Single submissions above 131072 samples are outside the explored range."},
    "C06": {"technique": "runtime monitor: cross-correlation lag, channel identity, peak and calibrated SNR-envelope checks on encode->decode round trips, under ASan+UBSan",
            "level_text": "Held on the executions observed: every decoded sample finite; correlation peak at lag 0 for every sharply correlated channel; output channels match their "
                          "own inputs; peak within 6x; multi-tone SNR above an envelope calibrated on this tree (min over 20 000 encodes - 6 dB, monotone in quality); " + _SAN,
            "level_note": "The envelope (data/c06_envelope.txt) is an empirical regression bound, not a psychoacoustic truth; degradations inside the 6 dB margin are invisible."},
    "C14": {"technique": "runtime monitor: all-windows (max-subarray) reservoir checker over packet sizes of real managed encodes and of a directly driven rate manager, under ASan+UBSan",
            "level_text": "Held on the executions observed: for every contiguous run of packets of every stream, bits above max-rate x duration (below min-rate x duration) stay "
                          "within the configured reservoir (+ rounding slack); worst windows reach 98-100% of the reservoir, so the bound is tight; includes adversarial candidate-size "
                          "vectors fed to the real manager; " + _SAN,
            "level_note": "Trusted: limits as reported by the public vorbis_info, reservoir as reported by OV_ECTL_RATEMANAGE2_GET; direct drive reaches into vorbis_block_internal."},
    "C15": {"technique": "runtime monitor: boundary-value and random sweep of the set-up argument space and ctl scripts with return-domain/struct-state assertions, under ASan+UBSan",
            "level_text": "Held on the executions observed: every channel count -1..300, rates across and around all template edges, qualities incl. NaN/Inf, bitrate triples, "
                          "all ctl requests with wild arguments before/after setup_init; returns in the documented set, failed one-step calls leave a zeroed info, successes "
                          "report the requested channels/rate and survive init, headerout, encoding and double clears; " + _SAN,
            "level_note": "Trusted: harness. Accepted configurations with an absurd hard minimum rate (> 24 bits/sample/channel) are not encoded (megabyte packets of padding)."},
    "C16": {"technique": "runtime monitor: comment lists through both header writers, independent packet parse, decoder read-back and an ASCII-only query model, with hostile libc case tables, under ASan+UBSan",
            "level_text": "Held on the executions observed: byte-exact round trip of thousands of comment lists (0-5000 entries, embedded NULs, NULL entries, 300 kB values), vendor string, "
                          "query/query_count equal to the model for mixed-case, non-ASCII and prefix tags; no libc case-mapping call reaches the hostile tables; " + _SAN,
            "level_note": "Trusted: harness packet parser and 10-line model. Locale independence is shown by link-time replacement of libc case mapping, since only C/POSIX locales exist here."},
})
META.update({
    "C01": {"technique": "runtime monitor: differential against an independent from-the-spec reference decoder on model-generated streams covering features the encoder never emits, under ASan+UBSan",
            "level_text": "Held on the executions observed: thousands of legal set-ups x packets across all floor/residue/codebook/mapping/mode/block-size strata; libvorbis accepts every "
                          "packet, consumes the same bits, yields the specified sample counts and samples within single-precision rounding of a float64 reference; ill-conditioned blocks "
                          "are counted and excluded; " + _SAN,
            "level_note": "Trusted: the model (harness/spec.c, ~1500 lines written from doc/*.tex). Two genuine deviations it found were repaired (residue 2 alignment, stage-less residue)."},
    "C05": {"technique": "runtime monitor: encoder output judged by libvorbis' bit reader, a strict specification-level parser and the model's bit accounting, under ASan+UBSan",
            "level_text": "Held on the executions observed: hundreds to thousands of encodes x every packet: headers accepted by decoder and strict parser and equal to the encoder's info; "
                          "every audio packet valid, consumed to within its last byte (unmanaged), never out of bits without a hard maximum (managed), window flags consistent; " + _SAN,
            "level_note": "Trusted: harness/spec.c strict parser and packet parser."},
    "C02": {"technique": "runtime monitor: sanitizers + return-code domain + budgets over mutated/boundary-value headers and random call histories of the packet API; lattice-size law swept over all near-perfect-power sizes",
            "level_text": "Held on the executions observed: ~10^5-10^6 library calls per run over mutated encoder-made and model-made streams and field-boundary set-ups, in random call orders "
                          "with interleaved and repeated clears; every return in the documented set; " + _SAN,
            "level_note": "Trusted: harness typestate (DESIGN 2.3). A clean sanitizer run is not memory safety; intra-object overruns are covered only by -fsanitize=bounds."},
    "C11": {"technique": "runtime monitor: per-packet output differential (clean vs disturbed decode) over 10 disturbance kinds and two granule conventions, under ASan+UBSan",
            "level_text": "Held on the executions observed (per-packet granule positions): every packet from k+2 on is bit-identical; with per-page granule positions two genuine, documented "
                          "limitations of granule-based trimming are reported as known findings; " + _SAN,
            "level_note": "Trusted: harness. See known_findings.json for the two per-page-granule findings."},
    "C13": {"technique": "runtime monitor: allocator live-byte ledger around each scenario + LeakSanitizer + ASan double-free detection + close-callback counting, incl. callback faults enumerated by invocation index",
            "level_text": "Held on the executions observed: thousands of encoder / decoder / vorbisfile scenarios including refused set-ups, refused headers, failed opens and failed seeks, "
                          "each ending in doubled clear calls: live heap bytes return to baseline, nothing is freed twice, close runs exactly once and only in ov_clear of an opened handle; " + _SAN,
            "level_note": "Trusted: ASan runtime's allocation statistics; harness frees its own memory before measuring."},
})
META.update({
    "C03": {"technique": "runtime monitor: sanitizers + return-code domain + failed-open post-conditions + CPU budget over damaged physical streams x random histories of all public vorbisfile calls",
            "level_text": "Held on the executions observed: ~10^5 (thorough 10^6+) public calls on thousands of damaged/intact/model-made streams in three open modes; every return documented, "
                          "failed opens leave a zeroed handle and an unclosed source, no call exceeds its CPU budget; " + _SAN,
            "level_note": "Trusted: libogg, harness damage operators. A clean sanitizer run is not memory safety."},
    "C12": {"technique": "runtime monitor: exhaustive-by-index callback fault injection with error-surfacing, no-hidden-close and recovery oracles (every seek flavour against a never-faulted twin handle, audio against the linear reference), under ASan+UBSan+LSan",
            "level_text": "Held on the executions observed: every callback invocation index of 17 scenarios x 4 stream kinds x 5 fault kinds x one-shot/persistent (tens of thousands of faulted "
                          "runs per quick run): failures surface as error codes or EOF, nothing is closed behind the caller, nothing hangs, and after the fault clears seeks and reads equal a "
                          "never-faulted decode; " + _SAN,
            "level_note": "Trusted: harness callbacks and reference decode. Enumeration is exhaustive per scenario up to the stated per-kind cap."},
})
META.update({
    "C18": {"technique": "runtime monitor: ThreadSanitizer + solitary-vs-concurrent output hashes; allocator-fill / stack-dirt differential; valgrind memcheck; FPU state probes",
            "level_text": "Held on the executions observed: no ThreadSanitizer report and no output difference for 14 pipeline kinds run 16 at a time against their solitary runs; identical outputs "
                          "under three heap-fill regimes and stack patterns and across repeated runs; no uninitialised-value use under memcheck; FPU control state preserved",
            "level_note": "Trusted: libogg (uninstrumented under TSan), harness. Thread-schedule diversity is limited to what the machine produces."},
})
LEVEL = {"C12": "fault_enumeration"}


def main(argv):
    if not argv:
        print(__doc__)
        return 2
    if argv[0] == "replay":
        return run.replay(argv[1])
    prop = argv[0]
    tier = os.environ.get("VERIF_TIER") or "quick"
    if "--tier" in argv:
        tier = argv[argv.index("--tier") + 1]
    if tier not in ("quick", "thorough"):
        tier = "quick"
    try:
        seed = int(os.environ.get("VERIF_SEED", "1"))
    except ValueError:
        seed = 1
    if prop not in CHECKS:
        print("unknown property " + prop, file=sys.stderr)
        return 2
    ctx = run.Ctx(prop, tier, seed, LEVEL.get(prop, "exploration"))
    try:
        return CHECKS[prop](ctx)
    except build.BuildError as e:
        print("HARNESS-ERROR: build failed\n" + str(e)[-3000:], file=sys.stderr)
        return 2
