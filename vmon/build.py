"""Build manager: compiles /repo's library sources (current working tree) plus
harness drivers in a named flavour.  Objects are keyed by a hash of the source
bytes and flags, so an edited tree is never served stale objects."""
import hashlib, os, re, shutil, subprocess, sys
from concurrent.futures import ThreadPoolExecutor

VERIF = os.path.dirname(os.path.dirname(os.path.abspath(__file__)))
REPO = os.environ.get("VERIF_REPO", "/repo")
BUILD = os.path.join(VERIF, ".build")
HARNESS = os.path.join(VERIF, "harness")
LIBOGG = "/usr/lib/x86_64-linux-gnu/libogg.a"
GUARD = "XIPH_VORBIS_VERIF"

UBSAN_GATE = ("bounds,null,integer-divide-by-zero,pointer-overflow,vla-bound,"
              "unreachable,return")

FLAVOURS = {
    # name: (cc, cflags, ldflags)
    "san": ("gcc", ["-O1", "-g", "-fno-omit-frame-pointer", "-fsanitize=address",
                    "-fsanitize=" + UBSAN_GATE, "-fno-sanitize-recover=all"],
            ["-fsanitize=address", "-fsanitize=" + UBSAN_GATE]),
    "tsan": ("gcc", ["-O1", "-g", "-fno-omit-frame-pointer", "-fsanitize=thread"],
             ["-fsanitize=thread", "-pthread"]),
    "acct": ("gcc", ["-O2", "-g", "-fno-omit-frame-pointer", "-DVH_ACCT=1", "-fno-builtin-malloc",
                     "-fno-builtin-calloc", "-fno-builtin-realloc", "-fno-builtin-free"],
             ["-pthread", "-rdynamic"]),
    "plain": ("gcc", ["-O1", "-g", "-fno-omit-frame-pointer"], ["-pthread"]),
    "fuzz": ("clang-14", ["-O1", "-g", "-fno-omit-frame-pointer",
                          "-fsanitize=fuzzer-no-link,address",
                          "-fsanitize=" + UBSAN_GATE + ",object-size",
                          "-fno-sanitize-recover=all"],
             ["-fsanitize=fuzzer,address", "-fsanitize=" + UBSAN_GATE]),
}


def _read(path):
    with open(path, "rb") as f:
        return f.read()


def lib_sources():
    """Source list from /repo/lib/CMakeLists.txt (followed, not hard-coded)."""
    txt = _read(os.path.join(REPO, "lib", "CMakeLists.txt")).decode("utf-8", "replace")
    out = []
    for var in ("VORBIS_SOURCES", "VORBISFILE_SOURCES", "VORBISENC_SOURCES"):
        m = re.search(r"set\(\s*" + var + r"\s+([^)]*)\)", txt)
        if not m:
            raise RuntimeError("cannot find %s in lib/CMakeLists.txt" % var)
        for tok in m.group(1).split():
            if tok.endswith(".c") and tok not in out:
                out.append(tok)
    return out


def tree_hash(extra=()):
    h = hashlib.sha256()
    for top in ("lib", "include"):
        for root, dirs, files in sorted(os.walk(os.path.join(REPO, top))):
            dirs.sort()
            for fn in sorted(files):
                if fn.endswith((".c", ".h", ".txt")):
                    p = os.path.join(root, fn)
                    h.update(p.encode())
                    h.update(_read(p))
    for e in extra:
        h.update(e if isinstance(e, bytes) else str(e).encode())
    return h.hexdigest()[:16]


def _run(cmd):
    r = subprocess.run(cmd, stdout=subprocess.PIPE, stderr=subprocess.STDOUT)
    return r.returncode, r.stdout.decode("utf-8", "replace"), cmd


def _prune(flavour, keep, keep_n=3):
    """Drop stale object directories of this flavour, keeping the newest few (concurrent checks against
    differently patched trees must not delete each other's builds) and anything touched in the last 10 minutes."""
    if not os.path.isdir(BUILD):
        return
    import time
    now = time.time()
    cands = []
    for d in os.listdir(BUILD):
        if d.startswith(flavour + "-") and d != keep:
            p = os.path.join(BUILD, d)
            try:
                cands.append((os.path.getmtime(p), p))
            except OSError:
                pass
    cands.sort(reverse=True)
    for mt, p in cands[keep_n:]:
        if now - mt > 600:
            shutil.rmtree(p, ignore_errors=True)


class BuildError(Exception):
    pass


def build_lib(flavour, extra_cflags=()):
    cc, cflags, ldflags = FLAVOURS[flavour]
    cflags = list(cflags) + list(extra_cflags)
    srcs = lib_sources()
    key = tree_hash([flavour, cc] + cflags + srcs)
    name = "%s-%s" % (flavour, key)
    out = os.path.join(BUILD, name)
    lib = os.path.join(out, "libvorbis_all.a")
    if os.path.exists(lib):
        return out
    _prune(flavour, name)
    tmp = out + ".tmp%d" % os.getpid()
    shutil.rmtree(tmp, ignore_errors=True)
    os.makedirs(tmp)
    inc = ["-I" + os.path.join(REPO, "include"), "-I" + os.path.join(REPO, "lib"), "-D" + GUARD]
    jobs = []
    objs = []
    for s in srcs:
        o = os.path.join(tmp, s.replace("/", "_")[:-2] + ".o")
        objs.append(o)
        jobs.append([cc] + cflags + inc + ["-w", "-c", os.path.join(REPO, "lib", s), "-o", o])
    with ThreadPoolExecutor(16) as ex:
        res = list(ex.map(_run, jobs))
    for rc, txt, cmd in res:
        if rc != 0:
            shutil.rmtree(tmp, ignore_errors=True)
            raise BuildError("compile failed: %s\n%s" % (" ".join(cmd), txt))
    rc, txt, cmd = _run(["ar", "rcs", os.path.join(tmp, "libvorbis_all.a")] + objs)
    if rc != 0:
        raise BuildError(txt)
    try:
        os.rename(tmp, out)
    except OSError:
        shutil.rmtree(tmp, ignore_errors=True)  # another process won the race
    return out


def build_driver(flavour, driver, extra_cflags=(), extra_src=(), extra_ld=()):
    """driver: basename in harness/ without .c.  Returns path to the executable."""
    cc, cflags, ldflags = FLAVOURS[flavour]
    libdir = build_lib(flavour)
    srcs = [os.path.join(HARNESS, driver + ".c"), os.path.join(HARNESS, "common.c")] + \
           [os.path.join(HARNESS, s) for s in extra_src]
    h = hashlib.sha256()
    for fn in sorted(os.listdir(HARNESS)):      # every harness file (headers and .inc parts included)
        if fn.endswith((".c", ".h", ".inc")):
            h.update(fn.encode()); h.update(_read(os.path.join(HARNESS, fn)))
    h.update(" ".join(srcs).encode())
    h.update(" ".join(list(extra_cflags) + list(extra_ld)).encode())
    exe = os.path.join(libdir, "%s-%s" % (driver, h.hexdigest()[:12]))
    if os.path.exists(exe):
        return exe
    inc = ["-I" + os.path.join(REPO, "include"), "-I" + os.path.join(REPO, "lib"),
           "-I" + HARNESS, "-D" + GUARD]
    tmp = exe + ".tmp%d" % os.getpid()
    cmd = [cc] + list(cflags) + list(extra_cflags) + inc + ["-Wall", "-Wno-unused-function", "-Wno-misleading-indentation", "-Wno-comment"] + srcs + \
          [os.path.join(libdir, "libvorbis_all.a"), LIBOGG, "-lm"] + list(ldflags) + list(extra_ld) + ["-o", tmp]
    rc, txt, _ = _run(cmd)
    if rc != 0:
        raise BuildError("driver build failed: %s\n%s" % (" ".join(cmd), txt))
    os.rename(tmp, exe)
    return exe


if __name__ == "__main__":
    fl = sys.argv[1] if len(sys.argv) > 1 else "san"
    print(build_lib(fl))
