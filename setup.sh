#!/bin/sh
# MANIFEST.setup_cmd: toolchain probe + warm the sanitizer build of /repo's current tree. Offline; nothing is fetched.
set -e
cd "$(dirname "$0")"
command -v gcc >/dev/null
test -f /usr/lib/x86_64-linux-gnu/libogg.a
python3 - <<'PY'
import sys
sys.path.insert(0, ".")
from vmon import build
print("san lib:", build.build_lib("san"))
PY
echo setup ok
