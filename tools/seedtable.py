#!/usr/bin/env python3
"""Prints the markdown table of seeded changes and which checks caught them (from seeded/*/meta.json)."""
import json, os, glob, re
V = os.path.dirname(os.path.dirname(os.path.abspath(__file__)))
print("| seeded change | property | what it is (from the author's notes) | caught by | keys reported |")
print("|---|---|---|---|---|")
for d in sorted(glob.glob(os.path.join(V, "seeded", "*"))):
    try:
        m = json.load(open(os.path.join(d, "meta.json")))
    except Exception:
        continue
    notes = m.get("needs_to_manifest", "")
    first = ""
    for line in notes.splitlines():
        line = line.strip().lstrip("#").strip()
        if len(line) > 30:
            first = line
            break
    first = re.sub(r"\s+", " ", first)[:170].replace("|", "/")
    det = m.get("detected_by", {})
    caught = [k for k, v in det.items() if v.get("exit") == 1]
    missed = [k for k, v in det.items() if v.get("exit") != 1]
    keys = sorted(set(k for v in det.values() for k in v.get("keys", [])))[:4]
    if m.get("superseded"):
        print("| %s | %s | %s | n/a - no longer breaks the property on the repaired tree (see meta.json) | |" % (os.path.basename(d), m.get("property"), first))
        continue
    print("| %s | %s | %s | %s%s | %s |" % (os.path.basename(d), m.get("property"), first, ", ".join(caught) or "-", (" (not by: " + ", ".join(missed) + ")") if missed else "", "; ".join(keys).replace("|", "/")))
