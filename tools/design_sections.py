#!/usr/bin/env python3
"""Regenerates DESIGN.md sections 11 (defects found) and 12 (seeded changes) between the AUTOGEN markers."""
import json, os, subprocess, sys
V = os.path.dirname(os.path.dirname(os.path.abspath(__file__)))
sys.path.insert(0, V)
log = subprocess.check_output(['git', '-C', '/repo', 'log', '--reverse', '--format=%h %s', '3e529fc..HEAD']).decode().splitlines()
k = json.load(open(os.path.join(V, 'known_findings.json')))['findings']
byc = {}
for f in k:
    if f['status'] == 'fixed':
        for c in str(f.get('commit', '')).split('+'):
            byc.setdefault(c[:7], []).append(f)
out = ["<!-- AUTOGEN-BEGIN (tools/design_sections.py) -->", "## 11. Defects found on the pinned tree", "",
       "Every entry was first reported by a check on the unchanged tree, reproduced from its witness against the real code, read in the",
       "source, and then either repaired by one unguarded `fix:` commit in `/repo` (the existing suite, unedited, still passes after each) or",
       "recorded as a known finding. `known_findings.json` is the machine-readable list; *fixed* entries suppress nothing - the checks pass",
       "on the repaired tree without any KNOWN-FINDING line for them and would report the violation again if it returned.", "",
       "| # | commit | property | what failed |", "|---|---|---|---|"]
for i, l in enumerate(log, 1):
    h, subj = l.split(' ', 1)
    fs = byc.get(h[:7], [])
    prop = ", ".join(sorted(set(f['property'] for f in fs))) or "?"
    what = (fs[0]['what'] if fs else subj).replace("|", "/")
    out.append("| %d | `%s` | %s | %s |" % (i, h, prop, what[:420]))
out += ["", "Known findings (genuine; recorded rather than repaired because no small, safe patch exists): the C11 pair and the begin-trimmed-link group (C07, C20)",
        "concern how granule-position based trimming works - `block.c` itself calls it 'not foolproof', and a begin trim can only drop what is still pending in the decoder",
        "when the first granule position arrives, while vorbisfile hands audio out packet by packet; repairing that means buffering a page's worth of decoded audio in",
        "vorbisfile or libvorbis. The C08 one is a documented fallback of the page seek. Each key names the input class, so a different failure of the same property is still reported:", ""]
for f in k:
    if f['status'] == 'known':
        out.append("* **%s** `%s` - %s" % (f['property'], f['key'], f['what']))
out += ["", "## 12. Seeded changes and which checks catch them", "",
        "Each change was written by a fresh sub-agent that saw only the text of one property and its own scratch worktree (nothing from /verif),",
        "then confirmed here in another scratch worktree: it applies, builds, the 528-case suite passes with it, its demonstration fails with it",
        "and passes without it (`tools/seedcheck.py confirm`). The checks were then pointed at a worktree with the change applied",
        "(`tools/seedcheck.py run`, `VERIF_REPO=<worktree>`; /repo is never patched). `seeded/<id>/meta.json` records what each needs in order to",
        "manifest and what was run.", ""]
tab = subprocess.check_output([sys.executable, os.path.join(V, 'tools', 'seedtable.py')]).decode().rstrip()
out.append(tab)
out += ["", "Changes that were missed at first and what was strengthened:", "",
        "* `C19_m2` (end-of-stream lap buffer offset): the cross-fade *content* clause was asserted only when the old position had a full half short block of audio left; it now also",
        "  covers old positions straddling or at the end of a link, taking the rest of the old audio from `vorbis_synthesis_lapout` on a third twin.",
        "* `C20_m1` (half-rate roll-back misses link 0): needs a link with 64-sample blocks after link 0; C20 now chains model-made 64-sample-block links among encoder-made",
        "  ones in every 8th case and checks refusal, flag, position, total and bit-identity with a twin that never asked.",
        "* `C06_m1` (stale residue bundle with a digitally silent channel in an uncoupled >= 3 channel mode): added the `gated` signal kind (each channel silent in its own segments) to the",
        "  channel-identity and envelope clauses.",
        "* `C06_m2` (managed-mode sliding low-pass uses the short block size): added a dedicated managed/coupled-stereo/44.1-48 kHz stratum with the `wide` signal (partials up to 0.42 x rate)",
        "  and calibrated its envelope keys.",
        "* Round 2 (sub-agents told which sites round 1 had used and asked for rarer, subtler changes):",
        "  `C01_r2m1` (32-bit look-ahead word made `int`: only codewords of length exactly 32 ending in a 1 bit) - the model now draws chain-shaped codebooks (lengths 1,2,...,k-1,k,k with k up to 32);",
        "  `C07_r2m1` (ov_pcm_seek drops the link's initial granule offset) - chain links now start at non-zero granule positions in 18 % of cases (which also exposed the link-0 defect of section 11);",
        "  `C09_r2m1` (open-time bisection takes any foreign BOS page for the link boundary) - every 10th C09 chain has 3-6 links of 100-400 KB so that the bisection really bisects;",
        "  `C06_r2m2` (transient verdict of all but the last channel discarded) - new `onset` signal (a noise burst out of digital silence in one channel) with a pre-echo clause (-45 dB 700-1700 samples ahead; 0 on the unchanged tree);",
        "  `C05_r2m2` (wrong length from `vorbis_analysis(vb,&op)`) - every third unmanaged encode is repeated through the direct packet interface and must be byte-identical;",
        "  `C08_r2m2` (a forward-hop fast path that is wrong only at half rate) leaves `ov_pcm_tell` exact, so C08 (position) is silent by construction; C20 (half-rate audio vs reference) reports it.",
        "  `C11_r2m1` (running count kept across a sequence gap while the position is unknown) fell exactly under a known-finding key; that key now names the disturbance class (accepted corruption vs sequence gap), so the same symptom after a duplicate/drop is a new violation;",
        "  `C12_r2m1` (failed re-read inside the backward page search returns a zeroed page) - needed a page holding nothing but the tail of a continued packet, which libogg's paging never produced in thousands of streams: C12 now has a fourth stream kind built page by page by the harness (`mux_tailpages`);",
        "  `C13_r2m1` / `C13_r2m2` (double free on a repeated foreign BOS serial; leak when headerout is called again) - foreign-BOS damage (once, twice) and repeated headerout added to the C13 scenarios;",
        "  `C15_r2m2` (psy curve index one past the end for input hotter than full scale) - over-range and alternating +-1 input added to the post-set-up encode; `C16_r2m1` / `C16_r2m2` (case folding off by one at '{'; struct's vendor copied) - tags built from the characters adjacent to the letter ranges, and a foreign vendor in the source structure with the library's own string as reference;",
        "  `C18_r2m2` (pcm buffers malloc'd instead of calloc'd, visible only for streams of <= 32 samples) - pipeline of encodes shorter than one block; `C19_r2m1` / `C19_r2m2` (crosslap with differing half-rate settings; lapout flag not reset per block) - independent half-rate per handle in the crosslap pairs and lapped seeks inside the histories; `C20_r2m2` (flag used as a shift count) - enabling with non-zero values other than 1.",
        "* Round 3 (sub-agents asked for two cooperating edits, multi-step histories or unusual-but-valid layouts; 24 changes, 16 caught as the checks stood):",
        "  `C08_r3m2` (link start times summed in `float`: error = seconds in front of the link x 2^-24 x its rate) - model-made links now take extreme sample rates (1 Hz ... 768 kHz) in 30 % of cases, so a few thousand",
        "  seconds precede later links; `C12_r3m1` / `C12_r3m2` (lapped seek sizes its buffers from link 0 after a failed seek; `ov_crosslap` carries on after end-of-data from a dumped handle) - C12 now makes one further call",
        "  (crosslap either way round, read, lapped seeks) while the fault persists, and half of the recovery probes start with a lapped seek; `C13_r3m1` / `C13_r3m2` (floor-0 map shared between equal block sizes and freed twice;",
        "  refused decoder set-up leaked from the third attempt on) - model streams with equal block sizes decoded in both flags, set-ups with an over-populated codebook, repeated refused `vorbis_synthesis_init`, and an undecodable",
        "  link inside vorbisfile chains; `C14_r3m2` (candidate packets sized in bits, not whole bytes: 1-7 bits over) - the 8-bit allowance of the window check now applies only to reservoirs smaller than one byte;",
        "  `C04_r3m1` (decoder rejects packets the rate manager truncated) - C04 has a stratum with average tracking off and a hard maximum below the nominal rate (saturation is measured and counted);",
        "  `C09_r3m2` (`ov_read` keeps the previous link's frame size for one call) - C09 repeats the linear read through the integer interface (C07 and C17 caught it as well).",
        "  Second batch (C05, C06, C10, C11, C15, C16, C17, C18; 16 changes, 9 caught as the checks stood): `C06_r3m2` (`pcmout` pointers cached per block: wrong after a partial `vorbis_synthesis_read`) - every other C06 decode",
        "  takes fewer samples than offered; `C11_r3m2` (a refused early `blockin` has already done its bookkeeping) - new disturbance 'blockin while output is pending, refused, drained, retried', after which nothing at all may differ;",
        "  `C11_r3m1` (restart keeps the old count when packet numbers restart at 0) is observable only through vorbisfile seeks on links whose audio sits on one page: C07 and C08 report it, C11 cannot (its only effect at packet level",
        "  is on packets k and k+1, which a disturbance may change); a 'restart, packets renumbered from 0' disturbance was added all the same; `C15_r3m1` (`vorbis_analysis_wrote` commits the count before refusing it) - C15's encode and a C04",
        "  stratum now make an over-long report in mid-stream, which must be refused and leave the stream unchanged; `C16_r3m1` (comment tables grown geometrically by count, but the decoder allocates exact tables) - C16 appends tags to the",
        "  structure the decoder filled in, writes it out and reads it back; `C18_r3m1` (per-candidate floor table not cleared: managed mode with a digitally silent channel) - 16th pipeline, managed encodes of the `gated` and `onset` signals;",
        "  `C17_r3m1` (half-rate shift sampled before the packet fetch) only mattered because streaming chains lost the half-rate flag at link boundaries - that is a defect of the pinned tree (section 11, C20 now reads streaming chains",
        "  at half rate); on the repaired tree the change no longer breaks the property and is kept as `superseded`.",
        "* Round 4 (10 properties; the prompt added: state left by refused calls, arithmetic at the format's extremes, values cached across functions; 20 changes, 13 caught as the checks stood):",
        "  `C17_r4m2` (`ov_read` spans a link boundary only when a section pointer is given) - C17 passes NULL for the section pointer in 30 % of reads; `C20_r4m1` (odd begin trim rounded up at half rate) - begin-trimmed links",
        "  (new mode c07b of `vfseek.c`, shared by C07 and C20; it also exposed how little of a begin trim vorbisfile applies, section 11); `C12_r4m1` (`errno` no longer cleared before the read callback) - the in-memory source",
        "  stopped clearing `errno` itself, failing seek/tell callbacks set it, and the recovery probe reads through to the true end of the data; `C13_r4m2` (`vorbis_block_clear` consults the already cleared dsp state) - half of the",
        "  encoder scenarios clear dsp before block; `C08_r4m2` (length of a link taken from a foreign multiplexed stream's last page) - C09 multiplexes a foreign logical stream into some links; `C08_r4m1` (plain seek returns early",
        "  when already at the target, which only a lapped seek can notice) is a C19 matter and C19 reports it. The author of `C03_r4m1` pointed at an unrelated unset-packet read in `ov_pcm_seek_page`; reproduced with a hand-built",
        "  stream (link data starting with continuation pages), fixed in /repo, and C03 now builds such links and dirties the stack before every scripted call.",
        "  Second batch of round 4 (C01, C02, C05, C06, C07, C09, C10, C16, C18, C19; one C09 change discarded because its author had read /verif's commit log): `C01_r4m1` (15-bit search hint clamped at 16 bits: books with",
        "  more than 32767 entries) - the big-books profile now draws books of 40 000-150 000 entries; `C01_r4m2` (floor-0 map built only when a curve is rendered: an unused floor is not cleared in the first block of each size) -",
        "  tolerance is now also per channel (a silent channel next to a loud one must be silent), and the first channel of a stream's first packets has an unused floor half of the time; `C02_r4m1` (block vectors sized by the",
        "  half-rate flag, transforms by the flag at set-up) - C02 flips the half-rate flag under a live decoder (the quantifier lists halfrate among the calls of any order; the earlier assumption excluded it); `C05_r4m1` / `C05_r4m2`",
        "  (manager armed although management was switched off by control request; 256 channels accepted) - both configurations added to C05; `C10_r4m1` / `C10_r4m2` (`ov_read` packs the first block after a link change with the old",
        "  channel count; streaming follows a foreign BOS serial) - C10 reads once per case through the integer interface and multiplexes foreign streams with either BOS order; `C16_r4m1` (a refused repeat of the comment header wipes",
        "  what was read) - C16 offers a repeated header packet in 30 % of cases.",
        "* Round 5 (all 20 properties, 40 changes; 19 caught as the checks stood, 9 more by another property's check - the same refused-`blockin`, failed-`ov_test_open`, `errno` and multiplexed-length mechanisms were rediscovered under",
        "  several properties): strengthened for `C15_r5m1` (extrapolation guard wrong for totals of 9-15 samples: tiny totals added to C04 and C15), `C05_r5m1` / `C05_r5m2` (truncation not charged back; refused direct packet request leaves",
        "  empty candidates: C05 got the biting-maximum stratum and offers every third block of a managed stream to `vorbis_analysis(vb,&op)` first), `C11_r5m1` (trim excess computed in `int`: granule offsets up to 2^40 in C11),",
        "  `C11_r5m2` (end-of-stream flag latched across a restart: mode c07b rewinds after reading to the end and compares the second pass with the first), `C12_r5m2` (failed seeks leave `current_link=-1`: C12 makes the no-I/O queries",
        "  after every failed call), `C13_r5m1` (failed `ov_test_open` not cleaned up: a later link's headers cut, and the close callback must not run for a failed open even at the final clear), `C16_r5m2` (zero-length entries read",
        "  back as NULL: reported instead of crashing the harness), `C10_r5m1` (filter callback applied before the length clip: C17 reads through `ov_read_filter` with a halving filter), `C07_r5m2` (EOS of a foreign stream in mid-link",
        "  ends the Vorbis link for a byte seek: C09 ends foreign streams in mid-link and judges 40 byte seeks per multiplexed chain), `C09_r5m1` (bisection stalls on maximum-size pages: a 100-200 KB comment in a later link),",
        "  `C06_r5m2` (end trim taken from the front when the only granule position is on the final packet: a third of the C06 decodes use that convention and the last 2048 samples are judged on their own).",
        "  `C18_r5m2` (uninitialised lap buffer for a time-based lapped seek from an unprimed handle at the end of the data) needed that exact state: the lapped-seek pipeline of C18 now ends with it on the single-link stream,",
        "  with the stack poisoned before the call. Not detected by any check: `C19_r5m1` (lap data",
        "  from the wrong place when the old handle sits at the end of a trimmed stream - C19 does not judge the lapped region's content for old positions at the end of the stream, where 'the audio that would have been read next'",
        "  is the decoder's hidden tail). `C03_r5m2` (endless discard loop in `ov_pcm_seek` on a phantom tail followed by an undecodable link) needed undecodable links and overstated final granule positions in C03; the",
        "  combination comes up in the thorough tier (reported there as `crash:cpu-budget:during pcm_seek`), not in a quick run. `C15_r5m2` is outside the property as stated (section 13).",
        "* Round 6 (16 changes, first batch only): all reported; strengthened for `C10_r6m1` (request lengths vary per call and a tap filter checks what `ov_read_filter` shows its filter) and `C15_r6m1` (the two ends of the accepted",
        "  bitrate / quality interval of a (channels, rate) pair are found by bisection over real set-up calls and requested exactly).",
        "* Round 7 (all 20 properties, one change each; quick tiers had been scaled 2-3x beforehand): 19 reported as the checks stood. `C15_r7m1` (channel-count guard moved from `vorbis_encode_setup_init` to the two set-up calls, so a",
        "  control request on an info that never saw a successful set-up call arms a template and `setup_init` succeeds with 0 channels at 0 Hz) was missed because the C15 workload only made control requests after a successful set-up call -",
        "  narrower than the quantifier ('any sequence of control requests'). C15 now also makes control requests before the set-up call, instead of it, and after a refused three-step set-up call (which leaves the info uncleared), then calls",
        "  `vorbis_encode_setup_init`; a success there is judged like any other (channels in 1..255 and rate > 0 as requested, analysis init, header output, encode). On the unchanged tree all ~1 500 such sequences per quick run are refused.",
        "  Second batch of round 7 (prompt added: state left by refused calls, arithmetic at the format's extremes, rarely used calls, interaction of two features, second and third occurrences; `git stash` forbidden after the first batch's",
        "  agents swapped changes through the shared stash; two exact repeats of first-batch changes - C05, C06 - not stored): 15 of 18 reported as the checks stood. Strengthened for `C19_r7m2` (`_ov_getlap` stops collecting old audio at any",
        "  foreign page: C19 multiplexes a foreign logical stream into the links of every 6th case - the harness's own link-end derivation had to learn to skip foreign pages too, section 13), `C10_r7m2` (a successful short read that",
        "  leaves `errno` set is taken for a read error: in a third of the C10 schedules the source returns from successful reads with `errno == EINTR`, as a callback that retried an interrupted read does; a true end of data leaves `errno` alone),",
        "  `C15_r7m2` (RATEMANAGE2_SET accepts a negative damping while no average is set, the deprecated RATEMANAGE_AVG then sets one: the manager walks off the front of the candidate array after ~0.75 s of audio): C15 has a rate-management",
        "  stratum (a third of the three-step cases: 6-16 requests from the six rate-management codes, arguments = what GET reports or a sane draw with 0-2 fields at boundary values, and about a second of audio when management ends up",
        "  active). The exact combination stayed too rare for random scripts in a quick run (thorough: `crash:SEGV:vorbis_bitrate_addblock`), so a deterministic pairwise stratum was added: one field of a RATEMANAGE2_SET argument at one of ten",
        "  boundary values x one follow-up request of the deprecated interface (none / AVG / HARD / SET) x both three-step set-up calls, 560 combinations enumerated by case id (each visited twice per quick run) and followed by",
        "  `setup_init` and a second of audio; with it the quick tier reports `C15_r7m2` too.",
        "* Round 8 (two batches of one change per property; prompts vary the kind of trigger asked for: cooperating sites / multi-step sequence / unusual legal input / fault at a particular point / boundary configuration; three exact",
        "  repeats of first-batch changes - C01, C06, C12 - not stored): 32 of 37 reported as the checks stood. Five were missed and led to stronger checks, all five now reported by the quick tier of their own property:",
        "  `C12_r8m1` (`_seek_helper` drops the read-ahead buffer before a seek that then fails: only a recovery seek to exactly the raw offset the handle reports is answered without moving the source and decodes what lies further on) -",
        "  C12's recovery probe always began with `ov_pcm_seek`; its first call is now drawn from all seek flavours (`ov_raw_seek(ov_raw_tell())`, raw seek to a random offset, `ov_pcm_seek_page`, `ov_time_seek`, `ov_time_seek_page`, or",
        "  `ov_pcm_seek`), made on the recovered handle and on a twin that never saw a fault: return code, `ov_pcm_tell` and `ov_raw_tell` must agree, and the audio after it is judged against the linear reference (~21 000 such calls per quick run).",
        "  `C08_r8m1` (`_seek_helper` claims the new offset before the source has moved: after one refused seek callback a retry of the same request finds the handle 'already there') - the C07/C08 histories never had a call fail for a",
        "  reason outside the arguments; they now contain seek calls during which the source balks once (judged for the return domain only), each followed by the same request again, which is judged like any other call (~3 300 per quick run).",
        "  `C03_r8m1` (`ov_raw_seek`'s early error exit clears a scratch stream it has not initialised yet; needs a refused seek callback and a dirty stack) - C12 reported it at once, C03 did not because its call scripts ran on a source that",
        "  never failed. 5 % of C03's script calls now run with a one-shot callback fault armed 0-2 invocations ahead (~3 000 fire per quick run); the stack is dirtied before every call as before. The same arming in C13's scripts counted",
        "  every kind on the read counter, so its seek and tell faults hardly ever fired: corrected.",
        "  `C02_r8m1` (the correction loop of `_book_maptype1_quantvals` never ends for 31 (dim, entries) pairs such as dim 3, entries k^3-1, k = 132..161) - forced `entries` values were powers of two and field extremes. New mode c02q: the",
        "  library's routine is asked for every (dim, k^dim-2..k^dim+2) below 2^24 (dims 2..24 exhaustively, dim 1 and dims up to 65535 sampled; ~138 000 pairs per quick run) and compared with the model's integer answer, and ~500 such books",
        "  are packed into real setup headers and run through `headerin` / `synthesis_init` / clear under a 20 s CPU budget per case.",
        "  `C13_r8m2` (`_fetch_headers` returns without clearing `vi`/`vc` when a read error hits the fetch of a link's THIRD header page during the open-time scan of a later link) - every stream the harness built had two header pages per",
        "  link, so that loop was never entered. The muxer now knows three header layouts (comment+setup on one page / one header packet per page / comment+setup over many small continued pages), C12 cycles through them, and C13 runs C12's",
        "  fault plans (a fault at every callback invocation index of an open or seek scenario) under LeakSanitizer with only the ledger gating.",
        "  Silence on the unchanged tree: all 20 quick tiers at seeds 811 and 4242 under heavy machine load (38-70 runnable processes; no CPU-budget false alarm) before the strengthening; afterwards all 20 at seed 1 (the committed evidence)",
        "  and the six changed checks (C02, C03, C07, C08, C12, C13) at seeds 2 and 7, C12 also at 3, 5 and 9. `tools/seedcheck.py run` now gives each run a private evidence directory (`VERIF_EVIDENCE_DIR`), so changes are checked in parallel.",
        "  `C03_r5m2` (round 5, thorough-only until now) is reported by the quick tier since C03 got a phantom-tail stratum (a link whose last page overstates its length, followed by a link that opens but cannot be decoded) and seek targets",
        "  at and around every link boundary.",
        "<!-- AUTOGEN-END -->"]
p = os.path.join(V, 'DESIGN.md')
s = open(p).read()
block = "\n".join(out) + "\n"
if "<!-- AUTOGEN-BEGIN" in s:
    a = s.index("<!-- AUTOGEN-BEGIN"); b = s.index("<!-- AUTOGEN-END -->") + len("<!-- AUTOGEN-END -->\n")
    s = s[:a] + block + s[b:]
else:
    a = s.index("## 13. Corrections")
    s = s[:a] + block + "\n" + s[a:]
open(p, 'w').write(s)
print("DESIGN.md sections 11/12 regenerated:", len(log), "fix commits")
