#!/usr/bin/env python3
"""Confirm a seeded change and run checks against it.

  tools/seedcheck.py confirm <prop> <src dir with patch.diff + demo.c> <name>
      scratch worktree of /repo: patch applies, builds, ctest passes, demo exits 1 with the patch and 0 without;
      on success stores /verif/seeded/<name>/{patch.diff,demo.c,meta.json}
  tools/seedcheck.py run <name> [<prop> ...] [--tier quick|thorough]
      builds a scratch worktree with the patch applied, points the checks at it (VERIF_REPO), records which
      checks fire in seeded/<name>/meta.json["detected_by"]; evidence files of /verif are restored afterwards.
Nothing is ever written to /repo."""
import json, os, shutil, subprocess, sys, tempfile, time

VERIF = os.path.dirname(os.path.dirname(os.path.abspath(__file__)))
REPO = "/repo"


def sh(cmd, cwd=None, env=None, timeout=3600):
    p = subprocess.run(cmd, shell=isinstance(cmd, str), cwd=cwd, env=env, stdout=subprocess.PIPE, stderr=subprocess.STDOUT, timeout=timeout)
    return p.returncode, p.stdout.decode("utf-8", "replace")


def worktree():
    d = tempfile.mkdtemp(prefix="vseed_", dir="/tmp")
    os.rmdir(d)
    rc, out = sh(["git", "-C", REPO, "worktree", "add", "--detach", d, "HEAD"])
    if rc:
        raise SystemExit("worktree add failed: " + out)
    return d


def drop(d):
    sh(["git", "-C", REPO, "worktree", "remove", "--force", d])
    shutil.rmtree(d, ignore_errors=True)
    sh(["git", "-C", REPO, "worktree", "prune"])


def build_and_test(d):
    rc, out = sh("cmake -G Ninja -B _build -DCMAKE_BUILD_TYPE=Release >/dev/null && cmake --build _build 2>&1 | tail -3 && ctest --test-dir _build --timeout 900 2>&1 | tail -3", cwd=d)
    return rc == 0 and "100% tests passed" in out, out[-600:]


LIBSRC = ["mdct.c", "smallft.c", "block.c", "envelope.c", "window.c", "lsp.c", "lpc.c", "analysis.c", "synthesis.c", "psy.c", "info.c",
          "floor1.c", "floor0.c", "res0.c", "mapping0.c", "registry.c", "codebook.c", "sharedbook.c", "lookup.c", "bitrate.c", "vorbisfile.c", "vorbisenc.c"]
SANFLAGS = ["-fsanitize=address", "-fsanitize=bounds,null,integer-divide-by-zero,pointer-overflow,vla-bound,unreachable,return", "-fno-sanitize-recover=all",
            "-fno-omit-frame-pointer"]


def demo_ldflags(src):
    """extra linker flags a demonstration asks for in its build_and_run.sh (e.g. -Wl,--wrap=malloc,... for its own allocation ledger)"""
    import re
    p = os.path.join(os.path.dirname(src), "build_and_run.sh")
    if not os.path.exists(p):
        return []
    return sorted(set(re.findall(r"-Wl,--wrap=[\w,=\-]+", open(p).read())))


def demo(d, src, san=False):
    exe = os.path.join(d, "_demo_san" if san else "_demo")
    extra = demo_ldflags(src)
    if san:   # demo and library compiled together under the gating sanitizer set (for changes whose symptom is a memory error)
        cmd = ["gcc", "-O1", "-g", "-w"] + SANFLAGS + ["-I", "include", "-I", "lib", src] + [os.path.join("lib", x) for x in LIBSRC] + ["-logg", "-lm", "-lpthread", "-o", exe] + extra
    else:
        cmd = ["gcc", "-O1", "-g", "-I", "include", "-I", "lib", src, "_build/lib/libvorbisfile.a", "_build/lib/libvorbisenc.a",
               "_build/lib/libvorbis.a", "-logg", "-lm", "-lpthread", "-o", exe] + extra
    rc, out = sh(cmd, cwd=d)
    if rc:
        return None, out[-800:]
    try:
        rc, out = sh([exe], cwd=d, timeout=600)
    except subprocess.TimeoutExpired:
        return 124, "demo timed out (600 s)"
    return rc, out[-500:]


def confirm(prop, src, name):
    patch = os.path.join(src, "patch.diff")
    d = worktree()
    meta = {"property": prop, "name": name, "confirmed": False}
    try:
        rc, out = sh(["git", "apply", patch], cwd=d)
        if rc:
            print("patch does not apply:", out); return 1
        ok, out = build_and_test(d)
        meta["tests_pass_with_change"] = ok
        if not ok:
            print("build/tests fail with change:", out); return 1
        san = False
        rc1, o1 = demo(d, os.path.join(src, "demo.c"))
        if rc1 in (None, 0):
            san = True
            rc1, o1 = demo(d, os.path.join(src, "demo.c"), san=True)
        meta["demo_built_with_sanitizers"] = san
        meta["demo_exit_with_change"] = rc1; meta["demo_output_with_change"] = o1
        sh(["git", "checkout", "--", "."], cwd=d)
        ok0, out = build_and_test(d)
        rc0, o0 = demo(d, os.path.join(src, "demo.c"), san=san)
        meta["demo_exit_without_change"] = rc0
        print("with change: demo exit %s; without: %s" % (rc1, rc0))
        if rc1 in (None, 0) or rc0 != 0:
            print("NOT confirmed", o1, o0); return 1
        meta["confirmed"] = True
    finally:
        drop(d)
    dst = os.path.join(VERIF, "seeded", name)
    os.makedirs(dst, exist_ok=True)
    shutil.copy(patch, os.path.join(dst, "patch.diff"))
    shutil.copy(os.path.join(src, "demo.c"), os.path.join(dst, "demo.c"))
    if demo_ldflags(os.path.join(src, "demo.c")):
        meta["demo_extra_ldflags"] = demo_ldflags(os.path.join(src, "demo.c"))
        shutil.copy(os.path.join(src, "build_and_run.sh"), os.path.join(dst, "build_and_run.sh"))
    notes = ""
    if os.path.exists(os.path.join(src, "notes.md")):
        notes = open(os.path.join(src, "notes.md")).read()
    meta["needs_to_manifest"] = notes
    meta["what_was_run"] = ("scratch worktree of /repo HEAD: git apply patch.diff; cmake+ninja build; ctest (528-case suite) passed; "
                            "demo.c %s exits %s; after git checkout and rebuild it exits %s" % ("compiled together with the library under ASan+UBSan(bounds,...)" if san else "linked against the patched static libs", rc1, rc0))
    with open(os.path.join(dst, "meta.json"), "w") as f:
        json.dump(meta, f, indent=1)
    print("stored", dst)
    return 0


def run(name, props, tier):
    dst = os.path.join(VERIF, "seeded", name)
    meta = json.load(open(os.path.join(dst, "meta.json")))
    props = props or [meta["property"]]
    d = worktree()
    results = meta.get("detected_by", {})
    evdir = tempfile.mkdtemp(prefix="vseed_ev_", dir="/tmp")   # private evidence/witness directory: parallel runs never touch /verif/evidence
    try:
        rc, out = sh(["git", "apply", os.path.join(dst, "patch.diff")], cwd=d)
        if rc:
            print("patch does not apply:", out); return 2
        env = dict(os.environ); env["VERIF_REPO"] = d; env["VERIF_EVIDENCE_DIR"] = evdir
        for p in props:
            t0 = time.time()
            rc, out = sh(["./check", p, "--tier", tier], cwd=VERIF, env=env, timeout=4 * 3600)
            keys = [l.split("key=[", 1)[1].split("]", 1)[0] for l in out.splitlines() if l.startswith("VIOLATION") and "key=[" in l]
            results["%s/%s" % (p, tier)] = {"exit": rc, "keys": keys[:12], "wall_s": round(time.time() - t0, 1)}
            print(name, p, tier, "exit", rc, keys[:6])
            if rc not in (0, 1):
                print(out[-1500:])
    finally:
        shutil.rmtree(evdir, ignore_errors=True)
        drop(d)
    meta["detected_by"] = results
    with open(os.path.join(dst, "meta.json"), "w") as f:
        json.dump(meta, f, indent=1)
    return 0


if __name__ == "__main__":
    a = sys.argv[1:]
    if a and a[0] == "confirm":
        sys.exit(confirm(a[1], a[2], a[3]))
    if a and a[0] == "run":
        tier = "quick"
        if "--tier" in a:
            i = a.index("--tier"); tier = a[i + 1]; del a[i:i + 2]
        sys.exit(run(a[1], a[2:], tier))
    print(__doc__); sys.exit(2)
